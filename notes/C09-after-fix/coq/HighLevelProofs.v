(* HighLevelProofs.v — lemmas about HighLevel.v (C09). *)
From Coq Require Import List NArith ZArith Bool Arith Lia.
From LB Require Import Tables HighLevel.
Import ListNotations.
Local Open Scope N_scope.

(* ================================================================== speed encoding (complete enumeration) *)
Definition speed_range : list Z := map (fun k => (Z.of_nat k - 126)%Z) (seq 0 253).

Lemma speed_range_complete s : (-126 <= s <= 126)%Z -> In s speed_range.
Proof.
  intros H. unfold speed_range. apply in_map_iff. exists (Z.to_nat (s + 126)). split.
  - rewrite Z2Nat.id by lia. lia.
  - apply in_seq. lia.
Qed.

Definition speed_fwd (prev_fwd : bool) (s : Z) : bool := if (s =? 0)%Z then prev_fwd else (0 <? s)%Z.

Definition speed_ok (prev_fwd : bool) (s : Z) : bool :=
  let fwd := speed_fwd prev_fwd s in
  let b := lib_to_dcc (byte (Z.abs_N s)) fwd in
  (b =? (if fwd then 128 else 0) + Z.abs_N s + (if (s =? 0)%Z then 0 else 1)) &&
  (b <? 256) && (dcc_to_lib b =? s)%Z && Bool.eqb (128 <=? b) fwd.

Lemma speed_all : forallb (fun s => speed_ok true s && speed_ok false s) speed_range = true.
Proof. vm_compute. reflexivity. Qed.

Lemma speed_encoding s prev : (-126 <= s <= 126)%Z ->
  let fwd := speed_fwd prev s in
  let b := lib_to_dcc (byte (Z.abs_N s)) fwd in
  b = (if fwd then 128 else 0) + Z.abs_N s + (if (s =? 0)%Z then 0 else 1) /\
  b < 256 /\ dcc_to_lib b = s /\ (128 <=? b) = fwd.
Proof.
  intros H. pose proof (proj1 (forallb_forall _ _) speed_all s (speed_range_complete s H)) as A.
  cbv beta in A. apply andb_true_iff in A as [A1 A2].
  assert (speed_ok prev s = true) as A by (destruct prev; assumption). clear A1 A2.
  unfold speed_ok in A. cbv zeta in A.
  apply andb_true_iff in A as [A A4]. apply andb_true_iff in A as [A A3]. apply andb_true_iff in A as [A1 A2].
  cbv zeta. repeat split.
  - apply N.eqb_eq, A1.
  - apply N.ltb_lt, A2.
  - apply Z.eqb_eq, A3.
  - apply eqb_prop, A4.
Qed.

(* the other direction: every DCC speed byte except the two "stop" encodings is the image of its decoding *)
Definition dcc_range : list N := map N.of_nat (seq 0 256).
Lemma dcc_range_complete b : b < 256 -> In b dcc_range.
Proof.
  intros H. unfold dcc_range. apply in_map_iff. exists (N.to_nat b). split.
  - apply N2Nat.id.
  - apply in_seq. lia.
Qed.
Definition dcc_back_ok (b : N) : bool :=
  let s := dcc_to_lib b in
  ((-126 <=? s)%Z && (s <=? 126)%Z) &&
  (if N.land b 127 <=? 1 then (s =? 0)%Z else lib_to_dcc (byte (Z.abs_N s)) (128 <=? b) =? b).
Lemma dcc_back_all : forallb dcc_back_ok dcc_range = true.
Proof. vm_compute. reflexivity. Qed.
Lemma dcc_back b : b < 256 ->
  (-126 <= dcc_to_lib b <= 126)%Z /\
  (1 < N.land b 127 -> lib_to_dcc (byte (Z.abs_N (dcc_to_lib b))) (128 <=? b) = b) /\
  (N.land b 127 <= 1 -> dcc_to_lib b = 0%Z).
Proof.
  intros H. pose proof (proj1 (forallb_forall _ _) dcc_back_all b (dcc_range_complete b H)) as A.
  unfold dcc_back_ok in A. cbv zeta in A. apply andb_true_iff in A as [A1 A2]. apply andb_true_iff in A1 as [A0 A1].
  apply Z.leb_le in A0, A1. split; [lia|]. split; intros L.
  - apply N.leb_gt in L. rewrite L in A2. apply N.eqb_eq, A2.
  - apply N.leb_le in L. rewrite L in A2. apply Z.eqb_eq, A2.
Qed.

(* ================================================================== generic list lemmas *)
Lemma list_eqb_eq a : forall b, list_eqb a b = true -> a = b.
Proof.
  induction a as [|x a IH]; intros [|y b] H; try discriminate; [reflexivity|].
  cbn in H. apply andb_true_iff in H as [H1 H2]. apply N.eqb_eq in H1. subst. f_equal. auto.
Qed.
Lemma list_eqb_refl a : list_eqb a a = true.
Proof. induction a; cbn; [reflexivity|]. rewrite N.eqb_refl. assumption. Qed.

Section UpdFirst.
  Context {A : Type} (key : A -> N).
  Variable f : A -> A.
  Hypothesis f_key : forall x, key (f x) = key x.

  Lemma upd_first_keys k l : map key (upd_first (fun x => key x =? k) f l) = map key l.
  Proof.
    induction l as [|x l IH]; [reflexivity|]. cbn. destruct (key x =? k); cbn; [rewrite f_key|rewrite IH]; reflexivity.
  Qed.

  Lemma find_upd_first_same k l :
    find (fun x => key x =? k) (upd_first (fun x => key x =? k) f l) = option_map f (find (fun x => key x =? k) l).
  Proof.
    induction l as [|x l IH]; [reflexivity|]. cbn. destruct (key x =? k) eqn:E; cbn.
    - rewrite f_key, E. reflexivity.
    - rewrite E. exact IH.
  Qed.

  Lemma find_upd_first_other k k' l : k' <> k ->
    find (fun x => key x =? k') (upd_first (fun x => key x =? k) f l) = find (fun x => key x =? k') l.
  Proof.
    intros Hne. induction l as [|x l IH]; [reflexivity|]. cbn. destruct (key x =? k) eqn:E; cbn.
    - rewrite f_key. apply N.eqb_eq in E. destruct (key x =? k') eqn:E'; [|reflexivity].
      apply N.eqb_eq in E'. congruence.
    - destruct (key x =? k'); [reflexivity|exact IH].
  Qed.
End UpdFirst.

Lemma upd_first_id {A} (p : A -> bool) (f : A -> A) l :
  (forall x, In x l -> p x = true -> f x = x) -> upd_first p f l = l.
Proof.
  induction l as [|x l IH]; intros H; [reflexivity|]. cbn. destruct (p x) eqn:E.
  - rewrite (H x (or_introl eq_refl) E). reflexivity.
  - rewrite IH; [reflexivity|]. intros y Hy. apply H. right. exact Hy.
Qed.

Lemma existsb_key_in {A} (key : A -> N) k l : existsb (fun x => key x =? k) l = true <-> In k (map key l).
Proof.
  rewrite existsb_exists, in_map_iff. split; intros [x [H1 H2]].
  - exists x. apply N.eqb_eq in H2. auto.
  - exists x. split; [assumption|]. apply N.eqb_eq. assumption.
Qed.

Lemma find_key_in {A} (key : A -> N) k l x : find (fun y => key y =? k) l = Some x -> In x l /\ key x = k.
Proof. intros H. apply find_some in H as [H1 H2]. apply N.eqb_eq in H2. auto. Qed.

(* ================================================================== format / range facts *)
Lemma steps_fmt_ok s : ((steps_fmt s =? 1) || (3 <? steps_fmt s))%bool = false.
Proof. unfold steps_fmt. destruct (s =? 28); [reflexivity|]. destruct (s =? 126); reflexivity. Qed.

(* ================================================================== searches *)
Lemma acc_search_some point bs id b e : acc_search point bs id = Some (b, e) ->
  In b bs /\
  match e with
  | inl m => In m (if point then b_pts b else b_sigs b) /\ ba_id m = id
  | inr m => In m (if point then b_dpts b else b_dsigs b) /\ dc_id m = id
  end.
Proof.
  induction bs as [|c bs IH]; [discriminate|]. cbn.
  destruct (find (fun m => ba_id m =? id) (if point then b_pts c else b_sigs c)) eqn:E1.
  - intros H. inversion H; subst. split; [left; reflexivity|]. apply (find_key_in ba_id) in E1. exact E1.
  - destruct (find (fun m => dc_id m =? id) (if point then b_dpts c else b_dsigs c)) eqn:E2.
    + intros H. inversion H; subst. split; [left; reflexivity|]. apply (find_key_in dc_id) in E2. exact E2.
    + intros H. apply IH in H as [H1 H2]. split; [right; exact H1|exact H2].
Qed.

Lemma per_search_some bs id b m : per_search bs id = Some (b, m) -> In b bs /\ In m (b_pers b) /\ pe_id m = id.
Proof.
  induction bs as [|c bs IH]; [discriminate|]. cbn.
  destruct (find (fun m => pe_id m =? id) (b_pers c)) eqn:E1.
  - intros H. inversion H; subst. split; [left; reflexivity|]. apply (find_key_in pe_id) in E1. exact E1.
  - intros H. apply IH in H as [H1 H2]. split; [right; exact H1|exact H2].
Qed.

Lemma rev_search_some bs id m : rev_search bs id = Some m -> exists b, In b bs /\ In m (b_revs b) /\ rv_id m = id.
Proof.
  induction bs as [|c bs IH]; [discriminate|]. cbn.
  destruct (find (fun m => rv_id m =? id) (b_revs c)) eqn:E1.
  - intros H. inversion H; subst. exists c. split; [left; reflexivity|]. apply (find_key_in rv_id) in E1. exact E1.
  - intros H. apply IH in H as [b [H1 H2]]. exists b. split; [right; exact H1|exact H2].
Qed.

(* ================================================================== well-formedness, unpacked *)
Lemma nodupb_NoDup l : nodupb l = true -> NoDup l.
Proof.
  induction l as [|x l IH]; intros H; [constructor|]. cbn in H. apply andb_true_iff in H as [H1 H2].
  constructor; [|auto]. intros Hin. apply negb_true_iff in H1.
  assert (existsb (N.eqb x) l = true) as E; [|congruence].
  apply existsb_exists. exists x. split; [assumption|apply N.eqb_refl].
Qed.

Definition wf_parts (w : world) : Prop :=
  NoDup (map b_id (w_boards w)) /\
  forallb wf_board (w_boards w) = true /\
  NoDup (map tr_id (w_trains w)) /\
  forallb wf_train (w_trains w) = true /\
  forallb2 wf_tst (w_trains w) (w_tst w) = true /\
  NoDup (flat_map (fun b => map ba_id (b_pts b) ++ map dc_id (b_dpts b)) (w_boards w)) /\
  NoDup (flat_map (fun b => map ba_id (b_sigs b) ++ map dc_id (b_dsigs b)) (w_boards w)) /\
  NoDup (flat_map (fun b => map pe_id (b_pers b)) (w_boards w)) /\
  NoDup (flat_map (fun b => map rv_id (b_revs b)) (w_boards w)) /\
  map ds_id (w_dpts w) = flat_map (fun b => map dc_id (b_dpts b)) (w_boards w) /\
  map ds_id (w_dsigs w) = flat_map (fun b => map dc_id (b_dsigs b)) (w_boards w) /\
  map rs_id (w_revs w) = flat_map (fun b => map rv_id (b_revs b)) (w_boards w) /\
  nodupb2 (map (fun m => (dc_addrl m, dc_addrh m)) (all_dacc w) ++ map (fun t => (tr_addrl t, tr_addrh t)) (w_trains w)) = true.

Lemma wfb_parts w : wfb w = true -> wf_parts w.
Proof.
  unfold wfb, wf_parts. intros H.
  repeat (apply andb_true_iff in H; destruct H as [H ?]).
  repeat split; try (apply nodupb_NoDup; assumption); try (apply list_eqb_eq; assumption); assumption.
Qed.

Lemma dacc_state_exists (point : bool) w b m : wfb w = true -> In b (w_boards w) ->
  In m (if point then b_dpts b else b_dsigs b) -> In (dc_id m) (map ds_id (get_dacc_st point w)).
Proof.
  intros Hwf Hb Hm. apply wfb_parts in Hwf.
  destruct Hwf as (_ & _ & _ & _ & _ & _ & _ & _ & _ & Hp & Hs & _).
  destruct point; cbn [get_dacc_st]; [rewrite Hp|rewrite Hs]; apply in_flat_map; exists b; (split; [assumption|]);
    apply in_map; assumption.
Qed.

(* ================================================================== updates keep the shape of the world *)
Definition same_shape (w w1 : world) : Prop :=
  w_boards w1 = w_boards w /\ w_trains w1 = w_trains w /\
  map ds_id (w_dpts w1) = map ds_id (w_dpts w) /\ map ds_id (w_dsigs w1) = map ds_id (w_dsigs w).

Lemma same_shape_refl w : same_shape w w.
Proof. repeat split. Qed.
Lemma same_shape_trans a b c : same_shape a b -> same_shape b c -> same_shape a c.
Proof. unfold same_shape. intros (A1 & A2 & A3 & A4) (B1 & B2 & B3 & B4). repeat split; congruence. Qed.

Lemma set_dacc_st_shape point w l : map ds_id l = map ds_id (get_dacc_st point w) -> same_shape w (set_dacc_st point w l).
Proof. destruct point; cbn; intros H; repeat split; assumption. Qed.

Lemma state_cs_accessory_shape w a al ah d t : same_shape w (state_cs_accessory w a al ah d t).
Proof.
  unfold state_cs_accessory.
  destruct (find_board_by_addr w a) as [b|]; [|apply same_shape_refl].
  destruct (find (dacc_addr_eqb al ah) (b_dpts b)) as [m|].
  - apply set_dacc_st_shape. apply (upd_first_keys ds_id). reflexivity.
  - destruct (find (dacc_addr_eqb al ah) (b_dsigs b)) as [m|]; [|apply same_shape_refl].
    apply set_dacc_st_shape. apply (upd_first_keys ds_id). reflexivity.
Qed.

Lemma dcc_ports_fold_shape a m ports : forall acc, same_shape (snd acc) (snd (fold_left (dcc_ports_step a m) ports acc)).
Proof.
  induction ports as [|pv ports IH]; intros acc; [apply same_shape_refl|]. cbn [fold_left].
  eapply same_shape_trans; [|apply IH]. unfold dcc_ports_step, send_cs_accessory. cbn [snd].
  apply state_cs_accessory_shape.
Qed.

Lemma get_dacc_st_shape point w w1 : same_shape w w1 -> map ds_id (get_dacc_st point w1) = map ds_id (get_dacc_st point w).
Proof. intros (_ & _ & H3 & H4). destruct point; assumption. Qed.

(* ================================================================== return 1 => nothing sent, nothing changed *)
Ltac break_goal :=
  repeat match goal with
         | |- context [match ?x with _ => _ end] => destruct x eqn:?
         end.
Ltac silent := intros HH; inversion HH; subst; auto.

Lemma set_train_speed_ret1 w t s o m w' : set_train_speed w t s o = Done 1 m w' -> m = [] /\ w' = w.
Proof. unfold set_train_speed. break_goal; silent. Qed.

Lemma set_accessory_ret1 point w id asp m w' : wfb w = true ->
  set_accessory point w id asp = Done 1 m w' -> m = [] /\ w' = w.
Proof.
  intros Hwf. unfold set_accessory.
  destruct (acc_search point (w_boards w) id) as [[b [mb|md]]|] eqn:Es; [| |silent].
  - break_goal; silent.
  - destruct (negb (b_conn b)); [silent|].
    destruct (find_daspect (dc_aspects md) asp) as [a|]; [|silent].
    destruct (fold_left (dcc_ports_step (b_addr b) md) (da_ports a) ([], w)) as [ms w1] eqn:Ef.
    destruct (existsb (fun s => ds_id s =? id) (get_dacc_st point w1)) eqn:Ex; [silent|].
    exfalso. apply acc_search_some in Es as [Hb [Hm Hid]].
    pose proof (dacc_state_exists point w b md Hwf Hb Hm) as Hin.
    pose proof (dcc_ports_fold_shape (b_addr b) md (da_ports a) ([], w)) as Hsh. rewrite Ef in Hsh. cbn [snd] in Hsh.
    rewrite <- (get_dacc_st_shape point _ _ Hsh), Hid in Hin.
    apply (existsb_key_in ds_id) in Hin. congruence.
Qed.

Lemma cmd_ret1_silent w c m w' : wfb w = true -> cmd w c = Done 1 m w' -> m = [] /\ w' = w.
Proof.
  intros Hwf. destruct c; cbn [cmd].
  - apply set_accessory_ret1, Hwf.
  - apply set_accessory_ret1, Hwf.
  - unfold set_peripheral. break_goal; silent.
  - apply set_train_speed_ret1.
  - unfold set_calibrated_train_speed. break_goal; first [apply set_train_speed_ret1 | silent].
  - unfold emergency_stop_train. break_goal; silent.
  - unfold set_train_peripheral. break_goal; silent.
  - unfold set_booster_power_state. break_goal; silent.
  - unfold set_track_output_state. break_goal; silent.
  - unfold set_track_output_state_all. silent.
  - unfold request_reverser_state. break_goal; silent.
Qed.

(* ================================================================== unique keys: find returns the element *)
Lemma find_none_notin {A} (key : A -> N) k l : ~ In k (map key l) -> find (fun y => key y =? k) l = None.
Proof.
  induction l as [|x l IH]; intros H; [reflexivity|]. cbn. destruct (key x =? k) eqn:E.
  - exfalso. apply H. left. apply N.eqb_eq. exact E.
  - apply IH. intros Hin. apply H. right. exact Hin.
Qed.

Lemma find_unique {A} (key : A -> N) l x : NoDup (map key l) -> In x l -> find (fun y => key y =? key x) l = Some x.
Proof.
  induction l as [|y l IH]; intros Hnd Hin; [contradiction|]. cbn in *. inversion Hnd as [|? ? Hn Hnd']; subst.
  destruct Hin as [->|Hin].
  - rewrite N.eqb_refl. reflexivity.
  - destruct (key y =? key x) eqn:E.
    + exfalso. apply Hn. apply N.eqb_eq in E. rewrite E. apply in_map. exact Hin.
    + apply IH; assumption.
Qed.

Lemma NoDup_app_l {A} (l1 l2 : list A) : NoDup (l1 ++ l2) -> NoDup l1.
Proof. induction l1 as [|x l1 IH]; intros H; [constructor|]. inversion H as [|? ? Hn Hd]; subst. constructor; [|auto]. intros Hin. apply Hn. apply in_or_app. left. exact Hin. Qed.
Lemma NoDup_app_r {A} (l1 l2 : list A) : NoDup (l1 ++ l2) -> NoDup l2.
Proof. induction l1 as [|x l1 IH]; intros H; [exact H|]. inversion H as [|? ? Hn Hd]; subst. auto. Qed.
Lemma NoDup_app_disj {A} (l1 l2 : list A) x : NoDup (l1 ++ l2) -> In x l1 -> In x l2 -> False.
Proof.
  induction l1 as [|y l1 IH]; intros H H1 H2; [contradiction|]. inversion H as [|? ? Hn Hd]; subst. destruct H1 as [->|H1].
  - apply Hn. apply in_or_app. right. exact H2.
  - apply IH; assumption.
Qed.

(* the accessory search finds exactly the configured accessory and its board when ids are unique *)
Section AccSearch.
  Variable point : bool.
  Let bl (b : board) := if point then b_pts b else b_sigs b.
  Let dl (b : board) := if point then b_dpts b else b_dsigs b.
  Let ids (b : board) := map ba_id (bl b) ++ map dc_id (dl b).

  Lemma acc_search_board_unique bs b m : NoDup (flat_map ids bs) -> In b bs -> In m (bl b) ->
    acc_search point bs (ba_id m) = Some (b, inl m).
  Proof.
    induction bs as [|c bs IH]; intros Hnd Hb Hm; [contradiction|]. cbn [flat_map] in Hnd. cbn [acc_search].
    fold (bl c). fold (dl c). destruct Hb as [->|Hb].
    - rewrite (find_unique ba_id (bl b) m); [reflexivity| |exact Hm].
      apply NoDup_app_l in Hnd. unfold ids in Hnd. apply NoDup_app_l in Hnd. exact Hnd.
    - assert (In (ba_id m) (flat_map ids bs)) as Hlater.
      { apply in_flat_map. exists b. split; [exact Hb|]. unfold ids. apply in_or_app. left. apply in_map. exact Hm. }
      rewrite (find_none_notin ba_id).
      2:{ intros Hin. apply (NoDup_app_disj _ _ (ba_id m) Hnd); [|exact Hlater]. unfold ids. apply in_or_app. left. exact Hin. }
      rewrite (find_none_notin dc_id).
      2:{ intros Hin. apply (NoDup_app_disj _ _ (ba_id m) Hnd); [|exact Hlater]. unfold ids. apply in_or_app. right. exact Hin. }
      apply IH; [apply NoDup_app_r in Hnd; exact Hnd|exact Hb|exact Hm].
  Qed.

  Lemma acc_search_dcc_unique bs b m : NoDup (flat_map ids bs) -> In b bs -> In m (dl b) ->
    acc_search point bs (dc_id m) = Some (b, inr m).
  Proof.
    induction bs as [|c bs IH]; intros Hnd Hb Hm; [contradiction|]. cbn [flat_map] in Hnd. cbn [acc_search].
    fold (bl c). fold (dl c). destruct Hb as [->|Hb].
    - pose proof (NoDup_app_l _ _ Hnd) as Hb'. unfold ids in Hb'.
      rewrite (find_none_notin ba_id).
      2:{ intros Hin. apply (NoDup_app_disj _ _ (dc_id m) Hb'); [exact Hin|apply in_map; exact Hm]. }
      rewrite (find_unique dc_id (dl b) m); [reflexivity| |exact Hm]. apply NoDup_app_r in Hb'. exact Hb'.
    - assert (In (dc_id m) (flat_map ids bs)) as Hlater.
      { apply in_flat_map. exists b. split; [exact Hb|]. unfold ids. apply in_or_app. right. apply in_map. exact Hm. }
      rewrite (find_none_notin ba_id).
      2:{ intros Hin. apply (NoDup_app_disj _ _ (dc_id m) Hnd); [|exact Hlater]. unfold ids. apply in_or_app. left. exact Hin. }
      rewrite (find_none_notin dc_id).
      2:{ intros Hin. apply (NoDup_app_disj _ _ (dc_id m) Hnd); [|exact Hlater]. unfold ids. apply in_or_app. right. exact Hin. }
      apply IH; [apply NoDup_app_r in Hnd; exact Hnd|exact Hb|exact Hm].
  Qed.
End AccSearch.

Lemma per_search_unique bs b m : NoDup (flat_map (fun b => map pe_id (b_pers b)) bs) -> In b bs -> In m (b_pers b) ->
  per_search bs (pe_id m) = Some (b, m).
Proof.
  induction bs as [|c bs IH]; intros Hnd Hb Hm; [contradiction|]. cbn [flat_map] in Hnd. cbn [per_search].
  destruct Hb as [->|Hb].
  - rewrite (find_unique pe_id (b_pers b) m); [reflexivity|apply NoDup_app_l in Hnd; exact Hnd|exact Hm].
  - rewrite (find_none_notin pe_id).
    2:{ intros Hin. apply (NoDup_app_disj _ _ (pe_id m) Hnd); [exact Hin|]. apply in_flat_map. exists b. split; [exact Hb|apply in_map; exact Hm]. }
    apply IH; [apply NoDup_app_r in Hnd; exact Hnd|exact Hb|exact Hm].
Qed.

Lemma rev_search_unique bs b m : NoDup (flat_map (fun b => map rv_id (b_revs b)) bs) -> In b bs -> In m (b_revs b) ->
  rev_search bs (rv_id m) = Some m.
Proof.
  induction bs as [|c bs IH]; intros Hnd Hb Hm; [contradiction|]. cbn [flat_map] in Hnd. cbn [rev_search].
  destruct Hb as [->|Hb].
  - rewrite (find_unique rv_id (b_revs b) m); [reflexivity|apply NoDup_app_l in Hnd; exact Hnd|exact Hm].
  - rewrite (find_none_notin rv_id).
    2:{ intros Hin. apply (NoDup_app_disj _ _ (rv_id m) Hnd); [exact Hin|]. apply in_flat_map. exists b. split; [exact Hb|apply in_map; exact Hm]. }
    apply IH; [apply NoDup_app_r in Hnd; exact Hnd|exact Hb|exact Hm].
Qed.

Lemma find_board_unique w b : wfb w = true -> In b (w_boards w) -> find_board w (b_id b) = Some b.
Proof. intros Hwf Hb. apply wfb_parts in Hwf. destruct Hwf as (H & _). apply (find_unique b_id); assumption. Qed.
Lemma find_train_unique w t : wfb w = true -> In t (w_trains w) -> find_train w (tr_id t) = Some t.
Proof. intros Hwf Hb. apply wfb_parts in Hwf. destruct Hwf as (_ & _ & H & _). apply (find_unique tr_id); assumption. Qed.

Lemma wf_board_in w b : wfb w = true -> In b (w_boards w) -> wf_board b = true.
Proof. intros Hwf Hb. apply wfb_parts in Hwf. destruct Hwf as (_ & H & _). exact (proj1 (forallb_forall _ _) H b Hb). Qed.

Lemma bacc_aspect_unique (point : bool) w b m a : wfb w = true -> In b (w_boards w) ->
  In m (if point then b_pts b else b_sigs b) -> In a (ba_aspects m) -> find_aspect (ba_aspects m) (as_id a) = Some a.
Proof.
  intros Hwf Hb Hm Ha. pose proof (wf_board_in w b Hwf Hb) as W. unfold wf_board in W.
  apply andb_true_iff in W as [W _]. apply andb_true_iff in W as [W _].
  assert (In m (b_pts b ++ b_sigs b)) as Hin by (apply in_or_app; destruct point; auto).
  pose proof (proj1 (forallb_forall _ _) W m Hin) as N. apply nodupb_NoDup in N.
  apply (find_unique as_id); assumption.
Qed.
Lemma dacc_aspect_unique (point : bool) w b m a : wfb w = true -> In b (w_boards w) ->
  In m (if point then b_dpts b else b_dsigs b) -> In a (dc_aspects m) -> find_daspect (dc_aspects m) (da_id a) = Some a.
Proof.
  intros Hwf Hb Hm Ha. pose proof (wf_board_in w b Hwf Hb) as W. unfold wf_board in W.
  apply andb_true_iff in W as [W _]. apply andb_true_iff in W as [_ W].
  assert (In m (b_dpts b ++ b_dsigs b)) as Hin by (apply in_or_app; destruct point; auto).
  pose proof (proj1 (forallb_forall _ _) W m Hin) as N. apply nodupb_NoDup in N.
  apply (find_unique da_id); assumption.
Qed.
Lemma per_aspect_unique w b m a : wfb w = true -> In b (w_boards w) ->
  In m (b_pers b) -> In a (pe_aspects m) -> find_aspect (pe_aspects m) (as_id a) = Some a.
Proof.
  intros Hwf Hb Hm Ha. pose proof (wf_board_in w b Hwf Hb) as W. unfold wf_board in W.
  apply andb_true_iff in W as [_ W].
  pose proof (proj1 (forallb_forall _ _) W m Hm) as N. apply nodupb_NoDup in N.
  apply (find_unique as_id); assumption.
Qed.

(* ================================================================== good commands: exactly the configured message *)
Definition acc_ids (point : bool) (b : board) : list N :=
  map ba_id (if point then b_pts b else b_sigs b) ++ map dc_id (if point then b_dpts b else b_dsigs b).

Lemma wfb_acc_nodup (point : bool) w : wfb w = true -> NoDup (flat_map (acc_ids point) (w_boards w)).
Proof.
  intros Hwf. apply wfb_parts in Hwf. destruct Hwf as (_ & _ & _ & _ & _ & Hp & Hs & _).
  destruct point; assumption.
Qed.

(* board accessory (point or signal): MSG_ACCESSORY_SET with the configured number and aspect value, to the
   board's current address; the tracked state is not touched (it follows the board's answer) *)
Lemma board_accessory_ok (point : bool) w b m a : wfb w = true ->
  In b (w_boards w) -> In m (if point then b_pts b else b_sigs b) -> In a (ba_aspects m) -> b_conn b = true ->
  ba_num m <= 127 -> as_val a <= 127 ->
  set_accessory point w (ba_id m) (as_id a) = Done 0 [(b_addr b, MSG_ACCESSORY_SET, [ba_num m; as_val a])] w.
Proof.
  intros Hwf Hb Hm Ha Hc Hn Hv. unfold set_accessory.
  rewrite (acc_search_board_unique point (w_boards w) b m (wfb_acc_nodup point w Hwf) Hb Hm).
  rewrite Hc. cbn [negb]. rewrite (bacc_aspect_unique point w b m a Hwf Hb Hm Ha).
  unfold send_accessory_set. apply N.ltb_ge in Hn, Hv. rewrite Hn, Hv. reflexivity.
Qed.

Lemma peripheral_ok w b m a : wfb w = true ->
  In b (w_boards w) -> In m (b_pers b) -> In a (pe_aspects m) -> b_conn b = true ->
  set_peripheral w (pe_id m) (as_id a) = Done 0 [(b_addr b, MSG_LC_OUTPUT, [pe_port0 m; pe_port1 m; as_val a])] w.
Proof.
  intros Hwf Hb Hm Ha Hc. unfold set_peripheral.
  pose proof (wfb_parts w Hwf) as (_ & _ & _ & _ & _ & _ & _ & Hp & _).
  rewrite (per_search_unique (w_boards w) b m Hp Hb Hm). rewrite Hc. cbn [negb].
  rewrite (per_aspect_unique w b m a Hwf Hb Hm Ha). reflexivity.
Qed.

Lemma booster_ok w b on : wfb w = true -> In b (w_boards w) -> b_conn b = true -> is_booster b = true ->
  set_booster_power_state w (b_id b) on = Done 0 [(b_addr b, if on then MSG_BOOST_ON else MSG_BOOST_OFF, [1])] w.
Proof.
  intros Hwf Hb Hc Hk. unfold set_booster_power_state. rewrite (find_board_unique w b Hwf Hb), Hc, Hk. reflexivity.
Qed.

Lemma track_output_ok w b s : wfb w = true -> In b (w_boards w) -> b_conn b = true -> is_track_output b = true ->
  cs_state_ok s = true ->
  set_track_output_state w (b_id b) s = Done 0 [(b_addr b, MSG_CS_SET_STATE, [s])] w.
Proof.
  intros Hwf Hb Hc Hk Hs. unfold set_track_output_state. rewrite (find_board_unique w b Hwf Hb), Hc, Hk.
  cbn [negb]. unfold send_cs_set_state. rewrite Hs. reflexivity.
Qed.

Lemma track_output_all_ok w s : cs_state_ok s = true ->
  set_track_output_state_all w s =
  Done 0 (map (fun b => (b_addr b, MSG_CS_SET_STATE, [s])) (filter (fun b => is_track_output b && b_conn b) (w_boards w))) w.
Proof.
  intros Hs. unfold set_track_output_state_all. f_equal.
  induction (w_boards w) as [|b l IH]; [reflexivity|]. cbn [flat_map filter].
  destruct (is_track_output b && b_conn b); [|exact IH]. unfold send_cs_set_state at 1. rewrite Hs. cbn [app map]. f_equal. exact IH.
Qed.

(* ================================================================== return 0 => the command named configured, connected equipment *)
Definition names_output (w : world) (o : N) : Prop :=
  exists b, In b (w_boards w) /\ b_id b = o /\ b_conn b = true /\ is_track_output b = true.
Definition names_train (w : world) (t : N) : Prop := exists tr, In tr (w_trains w) /\ tr_id tr = t.
Definition names_accessory (point : bool) (w : world) (id asp : N) : Prop :=
  exists b, In b (w_boards w) /\ b_conn b = true /\
    ((exists m a, In m (if point then b_pts b else b_sigs b) /\ ba_id m = id /\ In a (ba_aspects m) /\ as_id a = asp /\
                  ba_num m <= 127 /\ as_val a <= 127) \/
     (exists m a, In m (if point then b_dpts b else b_dsigs b) /\ dc_id m = id /\ In a (dc_aspects m) /\ da_id a = asp)).

(* what the property text calls a command naming configured, connected equipment, a defined aspect and values in
   range; after the repairs in /repo this is exactly what the code checks before it answers 0 *)
Definition accepted (w : world) (c : command) : Prop :=
  match c with
  | SwitchPoint p a => names_accessory true w p a
  | SetSignal s a => names_accessory false w s a
  | SetPeripheral p a => exists b m x, In b (w_boards w) /\ b_conn b = true /\ In m (b_pers b) /\ pe_id m = p /\
                                       In x (pe_aspects m) /\ as_id x = a
  | SetTrainSpeed t sp o => (-126 <= sp <= 126)%Z /\ names_train w t /\ names_output w o
  | SetCalibratedSpeed t sp o => (-9 <= sp <= 9)%Z /\ (exists tr, In tr (w_trains w) /\ tr_id tr = t /\ tr_calib tr <> None) /\
                                 names_output w o
  | EmergencyStop t o => names_train w t /\ names_output w o
  | SetTrainPeripheral t p st o => st <= 1 /\ (exists tr m, In tr (w_trains w) /\ tr_id tr = t /\ In m (tr_pers tr) /\ tp_id m = p /\
                                                              (tp_bit m < 5 \/ 8 <= tp_bit m)) /\
                                  names_output w o
  | SetBooster b _ => exists bd, In bd (w_boards w) /\ b_id bd = b /\ b_conn bd = true /\ is_booster bd = true
  | SetTrackOutput b s => cs_state_ok s = true /\ names_output w b
  | SetTrackOutputAll _ => True
  | RequestReverser r b => exists bd m, In bd (w_boards w) /\ b_id bd = b /\ b_conn bd = true /\ In m (b_revs bd) /\ rv_id m = r
  end.

Lemma negb_false_true b : negb b = false -> b = true.
Proof. destruct b; [reflexivity|discriminate]. Qed.

Lemma set_train_speed_ret0 w t s o m w' : set_train_speed w t s o = Done 0 m w' ->
  (-126 <= s <= 126)%Z /\ names_train w t /\ names_output w o.
Proof.
  unfold set_train_speed.
  destruct ((s <? -126)%Z || (126 <? s)%Z)%bool eqn:Er; [discriminate|].
  destruct (find_train w t) as [tr|] eqn:Et; [|discriminate].
  destruct (find_board w o) as [b|] eqn:Eb; [|discriminate].
  destruct (negb (b_conn b)) eqn:Ec; [discriminate|].
  destruct (negb (is_track_output b)) eqn:Ek; [discriminate|]. intros _.
  apply orb_false_iff in Er as [E1 E2]. apply Z.ltb_ge in E1, E2.
  apply (find_key_in tr_id) in Et as [Ht1 Ht2]. apply (find_key_in b_id) in Eb as [Hb1 Hb2].
  split; [lia|]. split; [exists tr; auto|]. exists b. repeat split; auto using negb_false_true.
Qed.

Lemma rev_owned_some bs bid rev : rev_owned bs bid rev = true ->
  exists b m, find (fun b => b_id b =? bid) bs = Some b /\ In m (b_revs b) /\ rv_id m = rev.
Proof.
  induction bs as [|c bs IH]; [discriminate|]. cbn [rev_owned find]. destruct (b_id c =? bid).
  - intros H. apply existsb_exists in H as [m [Hm He]]. apply N.eqb_eq in He. exists c, m. auto.
  - destruct (existsb (fun m => rv_id m =? rev) (b_revs c)); [discriminate|]. exact IH.
Qed.

Lemma cmd_ret0_accepted w c m w' : cmd w c = Done 0 m w' -> accepted w c.
Proof.
  destruct c; cbn [cmd accepted].
  - unfold set_accessory. destruct (acc_search true (w_boards w) p) as [[b [mb|md]]|] eqn:Es; [| |discriminate].
    + destruct (negb (b_conn b)) eqn:Ec; [discriminate|]. destruct (127 <? ba_num mb) eqn:En; [discriminate|].
      destruct (find_aspect (ba_aspects mb) a) as [x|] eqn:Ea; [|discriminate]. destruct (127 <? as_val x) eqn:Ev; [discriminate|].
      intros _. apply acc_search_some in Es as [Hb [Hm Hid]]. apply (find_key_in as_id) in Ea as [Ha1 Ha2].
      apply N.ltb_ge in En, Ev.
      exists b. split; [exact Hb|]. split; [apply negb_false_true, Ec|]. left. exists mb, x. repeat split; assumption.
    + destruct (negb (b_conn b)) eqn:Ec; [discriminate|]. destruct (find_daspect (dc_aspects md) a) as [x|] eqn:Ea; [|discriminate].
      intros _. apply acc_search_some in Es as [Hb [Hm Hid]]. apply (find_key_in da_id) in Ea as [Ha1 Ha2].
      exists b. split; [exact Hb|]. split; [apply negb_false_true, Ec|]. right. exists md, x. auto.
  - unfold set_accessory. destruct (acc_search false (w_boards w) s) as [[b [mb|md]]|] eqn:Es; [| |discriminate].
    + destruct (negb (b_conn b)) eqn:Ec; [discriminate|]. destruct (127 <? ba_num mb) eqn:En; [discriminate|].
      destruct (find_aspect (ba_aspects mb) a) as [x|] eqn:Ea; [|discriminate]. destruct (127 <? as_val x) eqn:Ev; [discriminate|].
      intros _. apply acc_search_some in Es as [Hb [Hm Hid]]. apply (find_key_in as_id) in Ea as [Ha1 Ha2].
      apply N.ltb_ge in En, Ev.
      exists b. split; [exact Hb|]. split; [apply negb_false_true, Ec|]. left. exists mb, x. repeat split; assumption.
    + destruct (negb (b_conn b)) eqn:Ec; [discriminate|]. destruct (find_daspect (dc_aspects md) a) as [x|] eqn:Ea; [|discriminate].
      intros _. apply acc_search_some in Es as [Hb [Hm Hid]]. apply (find_key_in da_id) in Ea as [Ha1 Ha2].
      exists b. split; [exact Hb|]. split; [apply negb_false_true, Ec|]. right. exists md, x. auto.
  - unfold set_peripheral. destruct (per_search (w_boards w) p) as [[b mp]|] eqn:Es; [|discriminate].
    destruct (negb (b_conn b)) eqn:Ec; [discriminate|]. destruct (find_aspect (pe_aspects mp) a) as [x|] eqn:Ea; [|discriminate].
    intros _. apply per_search_some in Es as (Hb & Hm & Hid). apply (find_key_in as_id) in Ea as [Ha1 Ha2].
    exists b, mp, x. repeat split; auto using negb_false_true.
  - apply set_train_speed_ret0.
  - unfold set_calibrated_train_speed.
    destruct ((speed <? -9)%Z || (9 <? speed)%Z)%bool eqn:Er; [discriminate|].
    destruct (find_train w t) as [tr|] eqn:Et; [|discriminate].
    destruct (tr_calib tr) as [cal|] eqn:Ecal; [|discriminate].
    apply orb_false_iff in Er as [E1 E2]. apply Z.ltb_ge in E1, E2.
    apply (find_key_in tr_id) in Et as [Ht1 Ht2].
    assert (forall v, set_train_speed w t v out = Done 0 m w' ->
                      (-9 <= speed <= 9)%Z /\ (exists tr, In tr (w_trains w) /\ tr_id tr = t /\ tr_calib tr <> None) /\ names_output w out) as K.
    { intros v H. apply set_train_speed_ret0 in H as (_ & _ & Ho). split; [lia|]. split; [|exact Ho].
      exists tr. repeat split; auto. rewrite Ecal. discriminate. }
    destruct (speed =? 0)%Z; [apply K|]. destruct (nth_error cal (Nat.pred (Z.abs_nat speed))); [|discriminate]. apply K.
  - unfold emergency_stop_train.
    destruct (find_train w t) as [tr|] eqn:Et; [|discriminate].
    destruct (find_board w out) as [b|] eqn:Eb; [|discriminate].
    destruct (negb (b_conn b)) eqn:Ec; [discriminate|].
    destruct (negb (is_track_output b)) eqn:Ek; [discriminate|]. intros _.
    apply (find_key_in tr_id) in Et as [Ht1 Ht2]. apply (find_key_in b_id) in Eb as [Hb1 Hb2].
    split; [exists tr; auto|]. exists b. repeat split; auto using negb_false_true.
  - unfold set_train_peripheral. destruct (1 <? state) eqn:Est; [discriminate|]. apply N.ltb_ge in Est.
    destruct (find_train w t) as [tr|] eqn:Et; [|discriminate].
    destruct (find_board w out) as [b|] eqn:Eb; [|discriminate].
    destruct (negb (b_conn b)) eqn:Ec; [discriminate|].
    destruct (negb (is_track_output b)) eqn:Ek; [discriminate|].
    destruct (find (fun m0 => tp_id m0 =? p) (tr_pers tr)) as [mp|] eqn:Ep; [|discriminate].
    destruct ((5 <=? tp_bit mp) && (tp_bit mp <=? 7)) eqn:Eb57; [discriminate|]. intros _.
    apply (find_key_in tr_id) in Et as [Ht1 Ht2]. apply (find_key_in b_id) in Eb as [Hb1 Hb2].
    apply (find_key_in tp_id) in Ep as [Hp1 Hp2].
    split; [exact Est|]. split.
    { exists tr, mp. repeat split; auto. apply andb_false_iff in Eb57 as [E|E]; apply N.leb_gt in E; lia. }
    exists b. repeat split; auto using negb_false_true.
  - unfold set_booster_power_state. destruct (find_board w b) as [bd|] eqn:Eb; [|discriminate].
    destruct (negb (b_conn bd)) eqn:Ec; [discriminate|]. destruct (negb (is_booster bd)) eqn:Ek; [discriminate|]. intros _.
    apply (find_key_in b_id) in Eb as [Hb1 Hb2]. exists bd. repeat split; auto using negb_false_true.
  - unfold set_track_output_state. destruct (negb (cs_state_ok s)) eqn:Es; [discriminate|].
    destruct (find_board w b) as [bd|] eqn:Eb; [|discriminate].
    destruct (negb (b_conn bd)) eqn:Ec; [discriminate|]. destruct (negb (is_track_output bd)) eqn:Ek; [discriminate|]. intros _.
    apply (find_key_in b_id) in Eb as [Hb1 Hb2]. split; [apply negb_false_true, Es|]. exists bd. repeat split; auto using negb_false_true.
  - intros _. exact I.
  - unfold request_reverser_state. destruct (find_board w b) as [bd|] eqn:Eb; [|discriminate].
    destruct (negb (b_conn bd)) eqn:Ec; [discriminate|]. destruct (rev_search (w_boards w) r) as [mr|] eqn:Er; [|discriminate].
    destruct (negb (existsb (fun s => rs_id s =? r) (w_revs w))); [discriminate|].
    destruct (negb (rev_owned (w_boards w) b r)) eqn:Eo; [discriminate|]. intros _.
    apply negb_false_true in Eo. destruct (rev_owned_some _ _ _ Eo) as (bo & mo & Hf & Hm1 & Hm2).
    unfold find_board in Eb. rewrite Hf in Eb. inversion Eb; subst bo.
    apply (find_key_in b_id) in Hf as [Hb1 Hb2]. exists bd, mo. repeat split; auto using negb_false_true.
Qed.

(* ================================================================== witnesses of the recorded defects *)
Definition wit_uid1 : list N := [218; 0; 13; 104; 0; 1; 238].
Definition wit_uid6 : list N := [5; 0; 13; 107; 0; 131; 236].
Definition wit_b1 : board :=
  mk_board 1 wit_uid1 false (0, 0, 0)
    [mk_bacc 2 144 [mk_aspect 1 1; mk_aspect 2 0]; mk_bacc 3 2 [mk_aspect 1 128; mk_aspect 2 0]]
    [mk_dacc 4 34 17 0 [mk_daspect 1 [(0, 1); (1, 0)]; mk_daspect 2 [(0, 0); (1, 1)]]]
    [] [] [] [mk_reverser 5 [51; 48; 48; 53; 49]].
Definition wit_b6 : board := mk_board 6 wit_uid6 false (0, 0, 0) [] [] [] [] [] [].
Definition wit_tr7 : train :=
  mk_train 7 35 1 126 (Some [5; 15; 30; 45; 60; 75; 90; 105; 120])
           [mk_tperiph 8 0; mk_tperiph 9 1; mk_tperiph 10 6; mk_tperiph 11 9].
Definition wit_tr12 : train := mk_train 12 35 65 28 None [].
Definition wit_world : world :=
  node_new (node_new (init_world [wit_b1; wit_b6] [wit_tr7; wit_tr12]) (0, 0, 0) 0 wit_uid1) (0, 0, 0) 3 wit_uid6.

Lemma wit_world_wf : wfb wit_world = true /\ conn_addrs_distinct (w_boards wit_world) = true.
Proof. vm_compute. split; reflexivity. Qed.

Definition tracked (w : world) (t p : N) : option N :=
  match find_tst w t with
  | Some ts => option_map tq_state (find (fun q => tq_id q =? p) (ts_pers ts))
  | None => None
  end.
Definition tracked_speed (w : world) (t : N) : option (Z * bool) :=
  option_map (fun ts => (ts_speed ts, ts_fwd ts)) (find_tst w t).

(* a state other than 0/1 is rejected in every world *)
Lemma function_bad_state w t p st o : 1 < st -> cmd w (SetTrainPeripheral t p st o) = Done 1 [] w.
Proof. intros H. cbn [cmd]. unfold set_train_peripheral. apply N.ltb_lt in H. rewrite H. reflexivity. Qed.

(* a track-output state outside t_bidib_cs_state is rejected in every world *)
Lemma track_output_bad_state w b s : cs_state_ok s = false -> cmd w (SetTrackOutput b s) = Done 1 [] w.
Proof. intros H. cbn [cmd]. unfold set_track_output_state. rewrite H. reflexivity. Qed.

(* the former witnesses of the repaired defects, now rejected commands / correct updates *)
Lemma wit_repaired :
  cmd wit_world (SwitchPoint 2 1) = Done 1 [] wit_world /\ cmd wit_world (SwitchPoint 3 1) = Done 1 [] wit_world /\
  cmd wit_world (SetTrainPeripheral 7 8 2 1) = Done 1 [] wit_world /\ cmd wit_world (SetTrainPeripheral 7 10 1 1) = Done 1 [] wit_world /\
  cmd wit_world (SetTrackOutput 1 5) = Done 1 [] wit_world /\ cmd wit_world (RequestReverser 5 6) = Done 1 [] wit_world /\
  exists w', cmd wit_world (SetTrainSpeed 12 7 1) = Done 0 [((0, 0, 0), MSG_CS_DRIVE, [35; 65; 2; 1; 136; 0; 0; 0; 0])] w' /\
             tracked_speed w' 12 = Some (7%Z, true) /\ tracked_speed w' 7 = Some (0%Z, true).
Proof. repeat split; try (vm_compute; reflexivity). eexists. vm_compute. repeat split; reflexivity. Qed.

Lemma board_accessory_cmd_ok : forall (point : bool) w b m a, wfb w = true ->
  In b (w_boards w) -> In m (if point then b_pts b else b_sigs b) -> In a (ba_aspects m) -> b_conn b = true ->
  ba_num m <= 127 -> as_val a <= 127 ->
  cmd w (if point then SwitchPoint (ba_id m) (as_id a) else SetSignal (ba_id m) (as_id a)) =
  Done 0 [(b_addr b, MSG_ACCESSORY_SET, [ba_num m; as_val a])] w.
Proof. intros point. destruct point; cbn [cmd]; [exact (board_accessory_ok true)|exact (board_accessory_ok false)]. Qed.

(* ================================================================== trains: state lookup, DCC lookup *)
Lemma tst_of_train_gen trs : forall tss tr, forallb2 wf_tst trs tss = true -> NoDup (map tr_id trs) -> In tr trs ->
  exists ts, find (fun s => ts_id s =? tr_id tr) tss = Some ts /\ wf_tst tr ts = true.
Proof.
  induction trs as [|x r IH]; intros [|y s] tr Hf Hnd Hin; try contradiction; try discriminate.
  cbn in Hf. apply andb_true_iff in Hf as [Hxy Hf]. cbn in Hnd. inversion Hnd as [|? ? Hn Hnd']; subst.
  pose proof Hxy as Hxy'. unfold wf_tst in Hxy'. apply andb_true_iff in Hxy' as [Hxy' _]. apply andb_true_iff in Hxy' as [Hid _].
  apply N.eqb_eq in Hid. destruct Hin as [->|Hin].
  - exists y. cbn. rewrite Hid, N.eqb_refl. auto.
  - cbn. destruct (ts_id y =? tr_id tr) eqn:E.
    + exfalso. apply Hn. apply N.eqb_eq in E. rewrite <- Hid, E. apply in_map. exact Hin.
    + apply IH; assumption.
Qed.

Lemma tst_of_train w tr : wfb w = true -> In tr (w_trains w) ->
  exists ts, find_tst w (tr_id tr) = Some ts /\ wf_tst tr ts = true.
Proof.
  intros Hwf Hin. apply wfb_parts in Hwf. destruct Hwf as (_ & _ & Hnd & _ & Hf & _).
  apply tst_of_train_gen with (trs := w_trains w); assumption.
Qed.

Lemma nodupb2_app_r a b : nodupb2 (a ++ b) = true -> nodupb2 b = true.
Proof. induction a as [|x a IH]; intros H; [exact H|]. cbn in H. apply andb_true_iff in H as [_ H]. auto. Qed.

Lemma find_by_dcc_unique l tr : nodupb2 (map (fun t => (tr_addrl t, tr_addrh t)) l) = true -> In tr l ->
  find (fun t => (tr_addrl t =? tr_addrl tr) && (tr_addrh t =? tr_addrh tr)) l = Some tr.
Proof.
  induction l as [|x l IH]; intros Hnd Hin; [contradiction|]. cbn in Hnd. apply andb_true_iff in Hnd as [Hx Hnd].
  cbn [find]. destruct Hin as [->|Hin].
  - rewrite !N.eqb_refl. reflexivity.
  - destruct ((tr_addrl x =? tr_addrl tr) && (tr_addrh x =? tr_addrh tr)) eqn:E; [|auto].
    exfalso. apply negb_true_iff in Hx. apply not_true_iff_false in Hx. apply Hx.
    apply existsb_exists. exists (tr_addrl tr, tr_addrh tr). split; [|exact E].
    apply in_map_iff. exists tr. auto.
Qed.

Lemma find_train_by_dcc_own w tr : wfb w = true -> In tr (w_trains w) ->
  find_train_by_dcc w (tr_addrl tr) (tr_addrh tr) = Some tr.
Proof.
  intros Hwf Hin. unfold find_train_by_dcc.
  apply wfb_parts in Hwf. destruct Hwf as (_ & _ & _ & _ & _ & _ & _ & _ & _ & _ & _ & _ & Hd).
  rewrite (find_by_dcc_unique (w_trains w) tr); [reflexivity| |exact Hin]. eapply nodupb2_app_r. exact Hd.
Qed.

Lemma drive_update_id w p ts : ts_id (drive_update w p ts) = ts_id ts.
Proof. unfold drive_update. destruct (dv_active p =? 0); reflexivity. Qed.

(* tracked state of the commanded train / of every other train after bidib_state_cs_drive *)
Lemma state_cs_drive_own w tr p : find_train_by_dcc w (dv_addrl p) (dv_addrh p) = Some tr ->
  find_tst (state_cs_drive w p) (tr_id tr) = option_map (drive_update w p) (find_tst w (tr_id tr)).
Proof.
  intros H. unfold state_cs_drive. rewrite H. unfold find_tst, set_tst. cbn [w_tst].
  apply (find_upd_first_same ts_id). apply drive_update_id.
Qed.
Lemma state_cs_drive_other w tr p t' : find_train_by_dcc w (dv_addrl p) (dv_addrh p) = Some tr -> t' <> tr_id tr ->
  find_tst (state_cs_drive w p) t' = find_tst w t'.
Proof.
  intros H Hne. unfold state_cs_drive. rewrite H. unfold find_tst, set_tst. cbn [w_tst].
  apply (find_upd_first_other ts_id); [apply drive_update_id|exact Hne].
Qed.
Lemma state_cs_drive_rest w p : let w' := state_cs_drive w p in
  w_boards w' = w_boards w /\ w_trains w' = w_trains w /\ w_dpts w' = w_dpts w /\ w_dsigs w' = w_dsigs w /\ w_revs w' = w_revs w.
Proof. unfold state_cs_drive. destruct (find_train_by_dcc w (dv_addrl p) (dv_addrh p)); repeat split. Qed.

Lemma drive_update_speed w al ah fmt sp ts :
  drive_update w (mk_drive al ah fmt 1 sp 0 0 0 0) ts = mk_tst (ts_id ts) (dcc_to_lib sp) (128 <=? sp) 4 (ts_pers ts).
Proof. reflexivity. Qed.

Lemma send_cs_drive_speed w a al ah st sp :
  send_cs_drive w a (mk_drive al ah (steps_fmt st) 1 sp 0 0 0 0) =
  ([(a, MSG_CS_DRIVE, [al; ah; steps_fmt st; 1; sp; 0; 0; 0; 0])], state_cs_drive w (mk_drive al ah (steps_fmt st) 1 sp 0 0 0 0)).
Proof. unfold send_cs_drive. cbn [dv_fmt dv_active dv_f1]. rewrite steps_fmt_ok. reflexivity. Qed.

(* bidib_set_train_speed on configured train / connected track output / speed in range *)
Lemma speed_cmd_ok w tr b s : wfb w = true ->
  In tr (w_trains w) -> In b (w_boards w) -> b_conn b = true -> is_track_output b = true ->
  (-126 <= s <= 126)%Z ->
  exists ts w', find_tst w (tr_id tr) = Some ts /\
    let fwd := if (s =? 0)%Z then ts_fwd ts else (0 <? s)%Z in
    let enc := (if fwd then 128 else 0) + Z.abs_N s + (if (s =? 0)%Z then 0 else 1) in
    cmd w (SetTrainSpeed (tr_id tr) s (b_id b)) =
      Done 0 [(b_addr b, MSG_CS_DRIVE, [tr_addrl tr; tr_addrh tr; steps_fmt (tr_steps tr); 1; enc; 0; 0; 0; 0])] w' /\
    find_tst w' (tr_id tr) = Some (mk_tst (tr_id tr) s fwd 4 (ts_pers ts)) /\
    (forall t', t' <> tr_id tr -> find_tst w' t' = find_tst w t') /\
    w_boards w' = w_boards w /\ w_trains w' = w_trains w /\ w_dpts w' = w_dpts w /\ w_dsigs w' = w_dsigs w /\ w_revs w' = w_revs w.
Proof.
  intros Hwf Htr Hb Hc Hk Hs.
  destruct (tst_of_train w tr Hwf Htr) as [ts [Hts Hwts]].
  pose proof (speed_encoding s (ts_fwd ts) Hs) as Henc. cbv zeta in Henc. unfold speed_fwd in Henc.
  set (fwd := if (s =? 0)%Z then ts_fwd ts else (0 <? s)%Z) in *.
  destruct Henc as (E1 & E2 & E3 & E4).
  set (p := mk_drive (tr_addrl tr) (tr_addrh tr) (steps_fmt (tr_steps tr)) 1 (lib_to_dcc (byte (Z.abs_N s)) fwd) 0 0 0 0).
  exists ts, (state_cs_drive w p). split; [exact Hts|]. cbv zeta.
  assert (find_train_by_dcc w (dv_addrl p) (dv_addrh p) = Some tr) as Hd by (apply find_train_by_dcc_own; assumption).
  split; [|split; [|split; [|apply state_cs_drive_rest]]].
  - cbn [cmd]. unfold set_train_speed.
    assert (((s <? -126)%Z || (126 <? s)%Z)%bool = false) as Er.
    { apply orb_false_iff. split; apply Z.ltb_ge; lia. }
    rewrite Er, (find_train_unique w tr Hwf Htr), (find_board_unique w b Hwf Hb), Hc, Hk. cbn [negb].
    assert ((if (s =? 0)%Z then match find_tst w (tr_id tr) with Some ts0 => Some (ts_fwd ts0) | None => None end
             else Some (0 <? s)%Z) = Some fwd) as Ef.
    { unfold fwd. rewrite Hts. destruct (s =? 0)%Z; reflexivity. }
    rewrite Ef. unfold p. rewrite send_cs_drive_speed. rewrite E1. reflexivity.
  - rewrite (state_cs_drive_own w tr p Hd), Hts. cbn [option_map]. unfold p. rewrite drive_update_speed.
    rewrite E3, E4. unfold wf_tst in Hwts. apply andb_true_iff in Hwts as [Hwts _]. apply andb_true_iff in Hwts as [Hid _].
    apply N.eqb_eq in Hid. rewrite Hid. reflexivity.
  - intros t' Hne. apply (state_cs_drive_other w tr p t' Hd Hne).
Qed.

(* calibrated speed = plain speed with the configured calibration entry *)
Definition calib_value (cal : list N) (s : Z) : Z :=
  if (s =? 0)%Z then 0%Z
  else let v := Z.of_N (nth (Nat.pred (Z.abs_nat s)) cal 0) in if (s <? 0)%Z then (- v)%Z else v.

Lemma calibrated_cmd w tr cal s o : wfb w = true -> In tr (w_trains w) -> tr_calib tr = Some cal -> (-9 <= s <= 9)%Z ->
  cmd w (SetCalibratedSpeed (tr_id tr) s o) = cmd w (SetTrainSpeed (tr_id tr) (calib_value cal s) o) /\
  (-126 <= calib_value cal s <= 126)%Z.
Proof.
  intros Hwf Htr Hcal Hs. cbn [cmd]. unfold set_calibrated_train_speed, calib_value.
  assert (((s <? -9)%Z || (9 <? s)%Z)%bool = false) as Er.
  { apply orb_false_iff. split; apply Z.ltb_ge; lia. }
  rewrite Er, (find_train_unique w tr Hwf Htr), Hcal.
  pose proof (wfb_parts w Hwf) as (_ & _ & _ & Hwt & _).
  pose proof (proj1 (forallb_forall _ _) Hwt tr Htr) as W. unfold wf_train in W. rewrite Hcal in W.
  apply andb_true_iff in W as [_ W]. apply andb_true_iff in W as [Wl Wv]. apply Nat.eqb_eq in Wl.
  destruct (s =? 0)%Z eqn:E0; [split; [reflexivity|lia]|]. apply Z.eqb_neq in E0.
  assert ((Nat.pred (Z.abs_nat s) < length cal)%nat) as Hlt by lia.
  destruct (nth_error cal (Nat.pred (Z.abs_nat s))) as [v|] eqn:En; [|apply nth_error_None in En; lia].
  rewrite (nth_error_nth _ _ 0 En).
  pose proof (proj1 (forallb_forall _ _) Wv v (nth_error_In _ _ En)) as Hv. apply N.leb_le in Hv.
  split; [reflexivity|]. destruct (s <? 0)%Z; lia.
Qed.

(* emergency stop: speed byte 0x81; tracked speed 0, tracked direction forwards (not the remembered one) *)
Lemma estop_cmd_ok w tr b : wfb w = true ->
  In tr (w_trains w) -> In b (w_boards w) -> b_conn b = true -> is_track_output b = true ->
  exists ts w', find_tst w (tr_id tr) = Some ts /\
    cmd w (EmergencyStop (tr_id tr) (b_id b)) =
      Done 0 [(b_addr b, MSG_CS_DRIVE, [tr_addrl tr; tr_addrh tr; steps_fmt (tr_steps tr); 1; 129; 0; 0; 0; 0])] w' /\
    find_tst w' (tr_id tr) = Some (mk_tst (tr_id tr) 0%Z true 4 (ts_pers ts)) /\
    (forall t', t' <> tr_id tr -> find_tst w' t' = find_tst w t').
Proof.
  intros Hwf Htr Hb Hc Hk.
  destruct (tst_of_train w tr Hwf Htr) as [ts [Hts Hwts]].
  set (p := mk_drive (tr_addrl tr) (tr_addrh tr) (steps_fmt (tr_steps tr)) 1 129 0 0 0 0).
  exists ts, (state_cs_drive w p). split; [exact Hts|].
  assert (find_train_by_dcc w (dv_addrl p) (dv_addrh p) = Some tr) as Hd by (apply find_train_by_dcc_own; assumption).
  split; [|split].
  - cbn [cmd]. unfold emergency_stop_train.
    rewrite (find_train_unique w tr Hwf Htr), (find_board_unique w b Hwf Hb), Hc, Hk. cbn [negb].
    fold p. unfold p at 1. rewrite send_cs_drive_speed. reflexivity.
  - rewrite (state_cs_drive_own w tr p Hd), Hts. cbn [option_map]. unfold p. rewrite drive_update_speed.
    unfold wf_tst in Hwts. apply andb_true_iff in Hwts as [Hwts _]. apply andb_true_iff in Hwts as [Hid _].
    apply N.eqb_eq in Hid. rewrite Hid. reflexivity.
  - intros t' Hne. apply (state_cs_drive_other w tr p t' Hd Hne).
Qed.

(* ================================================================== function bits (bidib_set_train_peripheral + bidib_state_cs_drive) *)
Local Ltac Zify.zify_post_hook ::= Z.to_euclidean_division_equations.

Lemma nrange_in n : forall lo x, lo <= x < lo + N.of_nat n -> In x (nrange lo n).
Proof. induction n as [|n IH]; intros lo x Hx; [lia|]. cbn. destruct (N.eq_dec lo x); [left; assumption|right]. apply IH. lia. Qed.

Lemma nrange_bounds n : forall lo x, In x (nrange lo n) -> lo <= x < lo + N.of_nat n.
Proof. induction n as [|n IH]; intros lo x Hx; [contradiction|]. cbn in Hx. destruct Hx as [<-|Hx]; [lia|]. apply IH in Hx. lia. Qed.

Lemma testbit_lt_pow2 x n : (forall k, n <= k -> N.testbit x k = false) -> x < 2 ^ n.
Proof.
  intros H. destruct (N.lt_ge_cases x (2 ^ n)) as [L|G]; [exact L|exfalso].
  assert (x <> 0) as Hx. { intros ->. pose proof (N.pow_nonzero 2 n). lia. }
  pose proof (N.bit_log2 x Hx) as B. rewrite H in B; [discriminate|].
  apply N.log2_le_pow2; lia.
Qed.

Lemma c_bits v j k : v <= 1 -> j < 8 -> N.testbit (byte (N.shiftl v j)) k = (v =? 1) && (j =? k).
Proof.
  intros Hv Hj. assert (v = 0 \/ v = 1) as [->| ->] by lia.
  - rewrite N.shiftl_0_l. reflexivity.
  - unfold byte. rewrite N.shiftl_mul_pow2, N.mul_1_l, N.mod_small.
    + rewrite N.pow2_bits_eqb. reflexivity.
    + change 256 with (2 ^ 8). apply N.pow_lt_mono_r; lia.
Qed.

Lemma land_shiftr_1 a n : N.land (N.shiftr a n) 1 = if N.testbit a n then 1 else 0.
Proof.
  change 1 with (N.ones 1) at 1. rewrite N.land_ones. change (2 ^ 1) with 2.
  rewrite <- N.bit0_mod, N.shiftr_spec', N.add_0_l. destruct (N.testbit a n); reflexivity.
Qed.

Definition pval (ps : list tpst) (id : N) : N :=
  match find (fun q => tq_id q =? id) ps with Some q => tq_state q | None => 0 end.

Definition in_grp (lo hi x : N) : bool := (lo <=? x) && (x <=? hi).

Definition contrib (lo hi : N) (ps : list tpst) (acc : N) (m' : tperiph) : N :=
  if in_grp lo hi (tp_bit m') then N.lor acc (byte (N.shiftl (pval ps (tp_id m')) (tp_bit m' mod 8))) else acc.

Lemma contrib_bits lo hi ps l : (forall m', In m' l -> pval ps (tp_id m') <= 1) -> forall acc k,
  N.testbit (fold_left (contrib lo hi ps) l acc) k =
  N.testbit acc k || existsb (fun m' => in_grp lo hi (tp_bit m') && (tp_bit m' mod 8 =? k) && (pval ps (tp_id m') =? 1)) l.
Proof.
  induction l as [|x l IH]; intros Hv acc k; [cbn; rewrite orb_false_r; reflexivity|].
  cbn [fold_left existsb]. rewrite IH by (intros; apply Hv; right; assumption). unfold contrib at 1.
  destruct (in_grp lo hi (tp_bit x)); cbn [andb].
  - rewrite N.lor_spec, c_bits; [|apply Hv; left; reflexivity|lia].
    rewrite (andb_comm (pval ps (tp_id x) =? 1)). rewrite orb_assoc. reflexivity.
  - reflexivity.
Qed.

Lemma group_facts bit act lo hi idx : tp_group bit = (act, lo, hi, idx) -> bit < 5 \/ 8 <= bit -> bit < 32 ->
  lo <= bit <= hi /\ hi < 32 /\ (idx < 4)%nat /\
  (forall i, lo <= i <= hi -> N.to_nat (i / 8) = idx) /\
  (forall i j, lo <= i <= hi -> lo <= j <= hi -> i mod 8 = j mod 8 -> i = j) /\
  (bit < 5 -> forall i, lo <= i <= hi -> i mod 8 < 5) /\
  (8 <= bit -> idx <> 0%nat).
Proof.
  unfold tp_group. intros H Hg H32.
  destruct (bit <? 5) eqn:E1; [apply N.ltb_lt in E1|apply N.ltb_ge in E1; destruct (bit <? 12) eqn:E2;
    [apply N.ltb_lt in E2|apply N.ltb_ge in E2; destruct (bit <? 16) eqn:E3;
      [apply N.ltb_lt in E3|apply N.ltb_ge in E3; destruct (bit <? 24) eqn:E4; [apply N.ltb_lt in E4|apply N.ltb_ge in E4]]]];
  inversion H; subst; repeat split; intros; try lia.
Qed.

Section Fn.
  Variables (w : world) (tr : train) (ts : tst).
  Hypothesis Hwf : wfb w = true.
  Hypothesis Htr : In tr (w_trains w).
  Hypothesis Hts : find_tst w (tr_id tr) = Some ts.
  Hypothesis Hwts : wf_tst tr ts = true.
  Let pers := tr_pers tr.
  Let ps := ts_pers ts.

  Lemma fn_tsid : ts_id ts = tr_id tr.
  Proof. unfold wf_tst in Hwts. apply andb_true_iff in Hwts as [H _]. apply andb_true_iff in H as [H _]. apply N.eqb_eq, H. Qed.
  Lemma fn_ids : map tq_id ps = map tp_id pers.
  Proof. unfold wf_tst in Hwts. apply andb_true_iff in Hwts as [H _]. apply andb_true_iff in H as [_ H]. apply list_eqb_eq, H. Qed.
  Lemma fn_le q : In q ps -> tq_state q <= 1.
  Proof. unfold wf_tst in Hwts. apply andb_true_iff in Hwts as [_ H]. intros Hq. apply N.leb_le. exact (proj1 (forallb_forall _ _) H q Hq). Qed.
  Lemma fn_wftrain : NoDup (map tp_id pers) /\ NoDup (map tp_bit pers) /\ forall m', In m' pers -> tp_bit m' < 32.
  Proof.
    pose proof (wfb_parts w Hwf) as (_ & _ & _ & Hwt & _).
    pose proof (proj1 (forallb_forall _ _) Hwt tr Htr) as W. unfold wf_train in W.
    apply andb_true_iff in W as [W _]. apply andb_true_iff in W as [W W3]. apply andb_true_iff in W as [W1 W2].
    split; [apply nodupb_NoDup, W1|]. split; [apply nodupb_NoDup, W2|].
    intros m' Hm. apply N.ltb_lt. exact (proj1 (forallb_forall _ _) W3 m' Hm).
  Qed.

  Lemma pval_le l id : (forall q, In q l -> tq_state q <= 1) -> pval l id <= 1.
  Proof.
    intros H. unfold pval. destruct (find (fun q => tq_id q =? id) l) as [q|] eqn:E; [|lia].
    apply find_some in E as [E _]. apply H, E.
  Qed.

  Lemma pstate_ok m' : In m' pers ->
    exists q, pstate_by_bit w ts (tp_bit m') = Some q /\ tq_state q = pval ps (tp_id m').
  Proof.
    intros Hm. destruct fn_wftrain as (Hn1 & Hn2 & _).
    unfold pstate_by_bit. rewrite fn_tsid, (find_train_unique w tr Hwf Htr).
    fold pers. rewrite (find_unique tp_bit pers m' Hn2 Hm). unfold pval. fold ps.
    destruct (find (fun q => tq_id q =? tp_id m') ps) as [q|] eqn:E; [exists q; auto|].
    exfalso. assert (In (tp_id m') (map tq_id ps)) as Hin by (rewrite fn_ids; apply in_map, Hm).
    apply (existsb_key_in tq_id) in Hin. apply existsb_exists in Hin as [q [Hq1 Hq2]].
    apply (find_none _ _ E) in Hq1. congruence.
  Qed.

  Lemma cur_bits_ok lo hi : cur_bits w tr lo hi = inr (fold_left (contrib lo hi ps) pers 0).
  Proof.
    unfold cur_bits. rewrite Hts. fold pers.
    assert (forall l acc, (forall m', In m' l -> In m' pers) ->
              fold_left (cur_bits_step w (Some ts) lo hi) l (inr acc) = inr (fold_left (contrib lo hi ps) l acc)) as G.
    { induction l as [|x l IH]; intros acc Hin; [reflexivity|]. cbn [fold_left].
      unfold cur_bits_step at 2. unfold contrib at 2. unfold in_grp.
      destruct ((lo <=? tp_bit x) && (tp_bit x <=? hi)).
      - destruct (pstate_ok x (Hin x (or_introl eq_refl))) as [q [Hq1 Hq2]]. rewrite Hq1, Hq2.
        apply IH. intros; apply Hin; right; assumption.
      - apply IH. intros; apply Hin; right; assumption. }
    apply G. auto.
  Qed.

  (* ---- the command *)
  Variables (b : board) (m : tperiph) (st : N).
  Hypothesis Hb : In b (w_boards w).
  Hypothesis Hc : b_conn b = true.
  Hypothesis Hk : is_track_output b = true.
  Hypothesis Hm : In m pers.
  Hypothesis Hst : st <= 1.
  Hypothesis Hg : tp_bit m < 5 \/ 8 <= tp_bit m.
  Let bit := tp_bit m.
  Let per := tp_id m.

  Definition fn_byte (lo hi : N) : N :=
    N.lor (N.clearbit (fold_left (contrib lo hi ps) pers 0) (bit mod 8)) (byte (N.shiftl st (bit mod 8))).

  Lemma fn_byte_bits lo hi k : N.testbit (fn_byte lo hi) k =
    if k =? bit mod 8 then st =? 1
    else existsb (fun m' => in_grp lo hi (tp_bit m') && (tp_bit m' mod 8 =? k) && (pval ps (tp_id m') =? 1)) pers.
  Proof.
    unfold fn_byte. rewrite N.lor_spec, c_bits by lia. rewrite N.clearbit_eqb, contrib_bits.
    2:{ intros. apply pval_le. apply fn_le. }
    rewrite N.bits_0. cbn [orb]. rewrite (N.eqb_sym k). destruct (bit mod 8 =? k); cbn [negb].
    - rewrite andb_false_r, andb_true_r. reflexivity.
    - rewrite andb_true_r, andb_false_r, orb_false_r. reflexivity.
  Qed.

  Lemma fn_find_m : find (fun m0 => tp_id m0 =? per) pers = Some m.
  Proof. destruct fn_wftrain as (Hn1 & _). apply (find_unique tp_id); assumption. Qed.

  Lemma pers_bit_inj m1 m2 : In m1 pers -> In m2 pers -> tp_bit m1 = tp_bit m2 -> m1 = m2.
  Proof.
    intros H1 H2 E. destruct fn_wftrain as (_ & Hn2 & _).
    pose proof (find_unique tp_bit pers m1 Hn2 H1) as F1. pose proof (find_unique tp_bit pers m2 Hn2 H2) as F2.
    rewrite E in F1. congruence.
  Qed.
  Lemma pers_id_inj m1 m2 : In m1 pers -> In m2 pers -> tp_id m1 = tp_id m2 -> m1 = m2.
  Proof.
    intros H1 H2 E. destruct fn_wftrain as (Hn1 & _).
    pose proof (find_unique tp_id pers m1 Hn1 H1) as F1. pose proof (find_unique tp_id pers m2 Hn1 H2) as F2.
    rewrite E in F1. congruence.
  Qed.

  Variables (act lo hi : N) (idx : nat).
  Hypothesis Eg : tp_group bit = (act, lo, hi, idx).

  Lemma fn_bit32 : bit < 32.
  Proof. destruct fn_wftrain as (_ & _ & H). apply H, Hm. Qed.

  Let GF := group_facts bit act lo hi idx Eg Hg fn_bit32.
  Let fb := set_nth idx (fn_byte lo hi) [0; 0; 0; 0].
  Let U := upd_first (fun q => tq_id q =? per) (fun q => mk_tpst (tq_id q) st).

  Lemma fb_nth : nth idx fb 0 = fn_byte lo hi.
  Proof.
    destruct GF as (_ & _ & Hi & _). unfold fb.
    destruct idx as [|[|[|[|?]]]]; try reflexivity. lia.
  Qed.

  Lemma fbit_grp i : lo <= i <= hi -> fbit fb i = if N.testbit (fn_byte lo hi) (i mod 8) then 1 else 0.
  Proof.
    intros Hi. destruct GF as (_ & _ & _ & Hidx & _). unfold fbit. rewrite (Hidx i Hi), fb_nth. apply land_shiftr_1.
  Qed.

  Lemma fbit_own : fbit fb bit = st.
  Proof.
    destruct GF as (Hr & _). rewrite (fbit_grp bit Hr), fn_byte_bits, N.eqb_refl.
    assert (st = 0 \/ st = 1) as [->| ->] by lia; reflexivity.
  Qed.

  Lemma fbit_other i m' : lo <= i <= hi -> i <> bit -> In m' pers -> tp_bit m' = i -> fbit fb i = pval ps (tp_id m').
  Proof.
    intros Hi Hne Hm' Hbm. destruct GF as (Hr & _ & _ & _ & Hinj & _).
    rewrite (fbit_grp i Hi), fn_byte_bits.
    assert ((i mod 8 =? bit mod 8) = false) as E. { apply N.eqb_neq. intros E. apply Hne. apply Hinj; assumption. }
    rewrite E.
    assert (existsb (fun m'' => in_grp lo hi (tp_bit m'') && (tp_bit m'' mod 8 =? i mod 8) && (pval ps (tp_id m'') =? 1)) pers
            = (pval ps (tp_id m') =? 1)) as X.
    { apply eq_iff_eq_true. rewrite existsb_exists. split.
      - intros [m'' [Hin H]]. apply andb_true_iff in H as [H H3]. apply andb_true_iff in H as [H1 H2].
        unfold in_grp in H1. apply andb_true_iff in H1 as [H1a H1b]. apply N.leb_le in H1a, H1b. apply N.eqb_eq in H2.
        assert (tp_bit m'' = i) as Eb by (apply Hinj; [lia|lia|exact H2]).
        rewrite <- Hbm in Eb. rewrite (pers_bit_inj m'' m' Hin Hm' Eb) in H3. exact H3.
      - intros H. exists m'. split; [exact Hm'|]. rewrite H, Hbm, N.eqb_refl. unfold in_grp.
        destruct Hi as [Hi1 Hi2]. apply N.leb_le in Hi1, Hi2. rewrite Hi1, Hi2. reflexivity. }
    rewrite X. pose proof (pval_le ps (tp_id m') fn_le) as L.
    assert (pval ps (tp_id m') = 0 \/ pval ps (tp_id m') = 1) as [-> | ->] by lia; reflexivity.
  Qed.

  Lemma fn_byte_lt32 : bit < 5 -> (31 <? fn_byte lo hi) = false.
  Proof.
    intros H5. apply N.ltb_ge. destruct GF as (Hr & _ & _ & _ & _ & H5' & _).
    assert (fn_byte lo hi < 2 ^ 5) as L; [|change (2 ^ 5) with 32 in L; lia].
    apply testbit_lt_pow2. intros k Hk5. rewrite fn_byte_bits.
    assert ((k =? bit mod 8) = false) as E by (apply N.eqb_neq; lia). rewrite E.
    destruct (existsb _ pers) eqn:X; [|reflexivity]. exfalso.
    apply existsb_exists in X as [m'' [Hin H]]. apply andb_true_iff in H as [H _]. apply andb_true_iff in H as [H1 H2].
    unfold in_grp in H1. apply andb_true_iff in H1 as [H1a H1b]. apply N.leb_le in H1a, H1b. apply N.eqb_eq in H2.
    pose proof (H5' H5 (tp_bit m'') (conj H1a H1b)). lia.
  Qed.

  (* ---- bidib_state_cs_drive's loop over the group *)
  Definition cur_ok (cur : list tpst) : Prop :=
    map tq_id cur = map tq_id ps /\ forall id, id <> per -> pval cur id = pval ps id.

  Lemma cur_ok_ps : cur_ok ps.
  Proof. split; auto. Qed.
  Lemma cur_ok_U : cur_ok (U ps).
  Proof.
    split; [apply (upd_first_keys tq_id); reflexivity|]. intros id Hne. unfold pval, U.
    rewrite (find_upd_first_other tq_id); [reflexivity|reflexivity|exact Hne].
  Qed.

  Lemma drive_bit_own cur : drive_bit w (ts_id ts) fb cur bit = U cur.
  Proof.
    destruct fn_wftrain as (_ & Hn2 & _).
    unfold drive_bit. rewrite fn_tsid, (find_train_unique w tr Hwf Htr). fold pers.
    unfold bit at 1. rewrite (find_unique tp_bit pers m Hn2 Hm). fold bit. rewrite fbit_own. reflexivity.
  Qed.

  Lemma upd_first_find_id {A} (p : A -> bool) (f : A -> A) l x : find p l = Some x -> f x = x -> upd_first p f l = l.
  Proof.
    induction l as [|y l IH]; [discriminate|]. cbn. destruct (p y) eqn:E.
    - intros H Hf. inversion H; subst. rewrite Hf. reflexivity.
    - intros H Hf. rewrite IH; auto.
  Qed.

  Lemma drive_bit_other cur i : cur_ok cur -> lo <= i <= hi -> i <> bit -> drive_bit w (ts_id ts) fb cur i = cur.
  Proof.
    intros [Hk1 Hk2] Hi Hne. unfold drive_bit. rewrite fn_tsid, (find_train_unique w tr Hwf Htr). fold pers.
    destruct (find (fun m0 => tp_bit m0 =? i) pers) as [m'|] eqn:E; [|reflexivity].
    apply (find_key_in tp_bit) in E as [Hm' Hbm].
    rewrite (fbit_other i m' Hi Hne Hm' Hbm).
    assert (tp_id m' <> per) as Hidne.
    { intros E. apply Hne. rewrite <- Hbm. unfold bit. f_equal. apply pers_id_inj; assumption. }
    destruct (find (fun q => tq_id q =? tp_id m') cur) as [q|] eqn:Eq.
    - apply (upd_first_find_id _ _ _ q Eq). rewrite <- (Hk2 _ Hidne). unfold pval. rewrite Eq. destruct q; reflexivity.
    - exfalso. assert (In (tp_id m') (map tq_id cur)) as Hin by (rewrite Hk1, fn_ids; apply in_map, Hm').
      apply (existsb_key_in tq_id) in Hin. apply existsb_exists in Hin as [q [Hq1 Hq2]].
      apply (find_none _ _ Eq) in Hq1. congruence.
  Qed.

  Lemma U_idem l : U (U l) = U l.
  Proof.
    unfold U. induction l as [|x l IH]; [reflexivity|]. cbn. destruct (tq_id x =? per) eqn:E; cbn; rewrite E; [reflexivity|].
    rewrite IH. reflexivity.
  Qed.

  Lemma drive_fold is : (forall i, In i is -> lo <= i <= hi) -> forall cur, cur = ps \/ cur = U ps ->
    fold_left (drive_bit w (ts_id ts) fb) is cur = if existsb (N.eqb bit) is then U ps else cur.
  Proof.
    induction is as [|i is IH]; intros Hr cur Hcur; [reflexivity|]. cbn [fold_left existsb].
    destruct (bit =? i) eqn:E.
    - apply N.eqb_eq in E. subst i. rewrite drive_bit_own. cbn [orb].
      assert (U cur = U ps) as -> by (destruct Hcur as [->| ->]; [reflexivity|apply U_idem]).
      rewrite IH; [|intros; apply Hr; right; assumption|right; reflexivity]. destruct (existsb (N.eqb bit) is); reflexivity.
    - apply N.eqb_neq in E. rewrite drive_bit_other.
      + cbn [orb]. apply IH; [intros; apply Hr; right; assumption|exact Hcur].
      + destruct Hcur as [->| ->]; [apply cur_ok_ps|apply cur_ok_U].
      + apply Hr. left. reflexivity.
      + congruence.
  Qed.

  Lemma drive_group_ok n : hi + 1 = lo + N.of_nat n -> drive_group w (ts_id ts) fb lo n ps = U ps.
  Proof.
    intros Hn. unfold drive_group. rewrite drive_fold.
    - assert (existsb (N.eqb bit) (nrange lo n) = true) as ->; [|reflexivity].
      apply existsb_exists. exists bit. split; [|apply N.eqb_refl]. apply nrange_in. destruct GF as (Hr & _). lia.
    - intros i Hi. apply nrange_bounds in Hi. lia.
    - left. reflexivity.
  Qed.

  Definition fn_drive : drive :=
    mk_drive (tr_addrl tr) (tr_addrh tr) (steps_fmt (tr_steps tr)) act 0 (nth 0 fb 0) (nth 1 fb 0) (nth 2 fb 0) (nth 3 fb 0).

  Lemma tper_cmd_eq : act <= 63 ->
    set_train_peripheral w (tr_id tr) per st (b_id b) =
    Done 0 [(b_addr b, MSG_CS_DRIVE, drive_data fn_drive)] (state_cs_drive w fn_drive).
  Proof.
    intros Ha. unfold set_train_peripheral. assert ((1 <? st) = false) as -> by (apply N.ltb_ge, Hst).
    rewrite (find_train_unique w tr Hwf Htr), (find_board_unique w b Hwf Hb), Hc, Hk. cbn [negb].
    fold pers. rewrite fn_find_m. fold bit.
    assert (((5 <=? bit) && (bit <=? 7)) = false) as ->.
    { apply andb_false_iff. unfold bit. destruct Hg as [L|G]; [left|right]; apply N.leb_gt; lia. }
    rewrite Eg, cur_bits_ok.
    assert ((32 <=? bit) = false) as -> by (apply N.leb_gt, fn_bit32).
    destruct GF as (Hr & _ & Hi & Hidx & _ & _ & H8). rewrite (Hidx bit Hr).
    assert (set_nth idx (N.lor (N.clearbit (nth idx (set_nth idx (fold_left (contrib lo hi ps) pers 0) [0; 0; 0; 0]) 0) (bit mod 8))
                               (byte (N.shiftl st (bit mod 8))))
                    (set_nth idx (fold_left (contrib lo hi ps) pers 0) [0; 0; 0; 0]) = fb) as ->.
    { unfold fb, fn_byte. destruct idx as [|[|[|[|?]]]]; try reflexivity. lia. }
    fold fn_drive. unfold send_cs_drive.
    assert (dv_fmt fn_drive = steps_fmt (tr_steps tr)) as -> by reflexivity. rewrite steps_fmt_ok.
    assert (dv_active fn_drive = act) as -> by reflexivity. apply N.ltb_ge in Ha. rewrite Ha.
    assert ((31 <? dv_f1 fn_drive) = false) as ->; [|reflexivity].
    cbn [dv_f1 fn_drive].
    assert (idx = 0 \/ idx = 1 \/ idx = 2 \/ idx = 3)%nat as [Ei|[Ei|[Ei|Ei]]] by lia;
      try (unfold fb; rewrite Ei; reflexivity).
    replace (nth 0 fb 0) with (fn_byte lo hi) by (unfold fb; rewrite Ei; reflexivity).
    apply fn_byte_lt32. destruct Hg as [L|G]; [exact L|]. exfalso. apply (H8 G). exact Ei.
  Qed.
End Fn.

Lemma group_cases bit : bit < 5 \/ 8 <= bit -> bit < 32 ->
  tp_group bit = (2, 0, 4, 0%nat) \/ tp_group bit = (4, 8, 11, 1%nat) \/ tp_group bit = (8, 12, 15, 1%nat) \/
  tp_group bit = (16, 16, 23, 2%nat) \/ tp_group bit = (32, 24, 31, 3%nat).
Proof.
  intros Hg H32. unfold tp_group.
  destruct (bit <? 5); [auto|]. destruct (bit <? 12); [auto|]. destruct (bit <? 16); [auto|]. destruct (bit <? 24); auto 6.
Qed.

Definition fn_spec_bit (tr : train) (ts : tst) (m : tperiph) (st lo hi k : N) : bool :=
  if k =? tp_bit m mod 8 then st =? 1
  else existsb (fun m' => in_grp lo hi (tp_bit m') && (tp_bit m' mod 8 =? k) && (pval (ts_pers ts) (tp_id m') =? 1)) (tr_pers tr).

Theorem functions_ok w tr b m st : wfb w = true ->
  In tr (w_trains w) -> In b (w_boards w) -> b_conn b = true -> is_track_output b = true ->
  In m (tr_pers tr) -> st <= 1 -> tp_bit m < 5 \/ 8 <= tp_bit m ->
  exists ts w' act lo hi idx fbyte,
    find_tst w (tr_id tr) = Some ts /\ tp_group (tp_bit m) = (act, lo, hi, idx) /\
    cmd w (SetTrainPeripheral (tr_id tr) (tp_id m) st (b_id b)) =
      Done 0 [(b_addr b, MSG_CS_DRIVE,
               [tr_addrl tr; tr_addrh tr; steps_fmt (tr_steps tr); act; 0] ++ set_nth idx fbyte [0; 0; 0; 0])] w' /\
    (forall k, N.testbit fbyte k = fn_spec_bit tr ts m st lo hi k) /\
    find_tst w' (tr_id tr) =
      Some (mk_tst (tr_id tr) (ts_speed ts) (ts_fwd ts) 4
                   (upd_first (fun q => tq_id q =? tp_id m) (fun q => mk_tpst (tq_id q) st) (ts_pers ts))) /\
    (forall t', t' <> tr_id tr -> find_tst w' t' = find_tst w t') /\
    w_boards w' = w_boards w /\ w_trains w' = w_trains w /\ w_dpts w' = w_dpts w /\ w_dsigs w' = w_dsigs w /\ w_revs w' = w_revs w.
Proof.
  intros Hwf Htr Hb Hc Hk Hm Hst Hg.
  destruct (tst_of_train w tr Hwf Htr) as [ts [Hts Hwts]].
  assert (tp_bit m < 32) as H32 by (apply (fn_bit32 w tr Hwf Htr m Hm)).
  assert (forall act lo hi idx n, tp_group (tp_bit m) = (act, lo, hi, idx) -> act <= 63 -> hi + 1 = lo + N.of_nat n ->
            (forall p : drive, dv_active p = act ->
               ts_pers (drive_update w p ts) = drive_group w (ts_id ts) [dv_f1 p; dv_f2 p; dv_f3 p; dv_f4 p] lo n (ts_pers ts) /\
               ts_speed (drive_update w p ts) = ts_speed ts /\ ts_fwd (drive_update w p ts) = ts_fwd ts /\
               ts_ack (drive_update w p ts) = 4 /\ ts_id (drive_update w p ts) = ts_id ts) ->
            [nth 0 (set_nth idx (fn_byte tr ts m st lo hi) [0; 0; 0; 0]) 0; nth 1 (set_nth idx (fn_byte tr ts m st lo hi) [0; 0; 0; 0]) 0;
             nth 2 (set_nth idx (fn_byte tr ts m st lo hi) [0; 0; 0; 0]) 0; nth 3 (set_nth idx (fn_byte tr ts m st lo hi) [0; 0; 0; 0]) 0]
            = set_nth idx (fn_byte tr ts m st lo hi) [0; 0; 0; 0] ->
            exists ts0 w' act0 lo0 hi0 idx0 fbyte,
              find_tst w (tr_id tr) = Some ts0 /\ tp_group (tp_bit m) = (act0, lo0, hi0, idx0) /\
              cmd w (SetTrainPeripheral (tr_id tr) (tp_id m) st (b_id b)) =
                Done 0 [(b_addr b, MSG_CS_DRIVE,
                         [tr_addrl tr; tr_addrh tr; steps_fmt (tr_steps tr); act0; 0] ++ set_nth idx0 fbyte [0; 0; 0; 0])] w' /\
              (forall k, N.testbit fbyte k = fn_spec_bit tr ts0 m st lo0 hi0 k) /\
              find_tst w' (tr_id tr) =
                Some (mk_tst (tr_id tr) (ts_speed ts0) (ts_fwd ts0) 4
                             (upd_first (fun q => tq_id q =? tp_id m) (fun q => mk_tpst (tq_id q) st) (ts_pers ts0))) /\
              (forall t', t' <> tr_id tr -> find_tst w' t' = find_tst w t') /\
              w_boards w' = w_boards w /\ w_trains w' = w_trains w /\ w_dpts w' = w_dpts w /\ w_dsigs w' = w_dsigs w /\ w_revs w' = w_revs w) as K.
  { intros act lo hi idx n Eg Ha Hn Hdu Hfb.
    set (p := fn_drive tr ts m st act lo hi idx).
    exists ts, (state_cs_drive w p), act, lo, hi, idx, (fn_byte tr ts m st lo hi).
    assert (find_train_by_dcc w (dv_addrl p) (dv_addrh p) = Some tr) as Hd by (apply find_train_by_dcc_own; assumption).
    split; [exact Hts|]. split; [exact Eg|]. split; [|split; [|split; [|split; [|apply state_cs_drive_rest]]]].
    - cbn [cmd]. rewrite (tper_cmd_eq w tr ts Hwf Htr Hts Hwts b m st Hb Hc Hk Hm Hst Hg act lo hi idx Eg Ha).
      fold p. unfold drive_data. unfold p at 1 2 3 4 5 6 7 8 9. cbn [fn_drive dv_addrl dv_addrh dv_fmt dv_active dv_speed dv_f1 dv_f2 dv_f3 dv_f4].
      cbn [app]. rewrite <- Hfb at 5. reflexivity.
    - intros k. apply fn_byte_bits; assumption.
    - rewrite (state_cs_drive_own w tr p Hd), Hts. cbn [option_map].
      destruct (Hdu p eq_refl) as (D1 & D2 & D3 & D4 & D5).
      destruct (drive_update w p ts) as [i sp fw ak pe] eqn:Edu. cbn [ts_pers ts_speed ts_fwd ts_ack ts_id] in *. subst.
      rewrite (fn_tsid tr ts Hwts). f_equal. f_equal.
      assert ([dv_f1 p; dv_f2 p; dv_f3 p; dv_f4 p] = set_nth idx (fn_byte tr ts m st lo hi) [0; 0; 0; 0]) as -> by exact Hfb.
      rewrite <- (fn_tsid tr ts Hwts). apply (drive_group_ok w tr ts Hwf Htr Hwts m st Hm Hst Hg act lo hi idx Eg n Hn).
    - intros t' Hne. apply (state_cs_drive_other w tr p t' Hd Hne). }
  destruct (group_cases (tp_bit m) Hg H32) as [Eg|[Eg|[Eg|[Eg|Eg]]]].
  - apply (K 2 0 4 0%nat 5%nat Eg); [lia|reflexivity| |reflexivity].
    intros p Hp. unfold drive_update. rewrite Hp. cbn. repeat split; reflexivity.
  - apply (K 4 8 11 1%nat 4%nat Eg); [lia|reflexivity| |reflexivity].
    intros p Hp. unfold drive_update. rewrite Hp. cbn. repeat split; reflexivity.
  - apply (K 8 12 15 1%nat 4%nat Eg); [lia|reflexivity| |reflexivity].
    intros p Hp. unfold drive_update. rewrite Hp. cbn. repeat split; reflexivity.
  - apply (K 16 16 23 2%nat 8%nat Eg); [lia|reflexivity| |reflexivity].
    intros p Hp. unfold drive_update. rewrite Hp. cbn. repeat split; reflexivity.
  - apply (K 32 24 31 3%nat 8%nat Eg); [lia|reflexivity| |reflexivity].
    intros p Hp. unfold drive_update. rewrite Hp. cbn. repeat split; reflexivity.
Qed.

(* ================================================================== no fault, return code 0 or 1 *)
Lemma set_train_speed_ret01 w t s o r m w' : set_train_speed w t s o = Done r m w' -> r = 0 \/ r = 1.
Proof. unfold set_train_speed. break_goal; intros H; inversion H; auto. Qed.

Lemma cmd_ret01 w c r m w' : cmd w c = Done r m w' -> r = 0 \/ r = 1.
Proof.
  destruct c; cbn [cmd].
  - unfold set_accessory. break_goal; intros H; inversion H; auto.
  - unfold set_accessory. break_goal; intros H; inversion H; auto.
  - unfold set_peripheral. break_goal; intros H; inversion H; auto.
  - apply set_train_speed_ret01.
  - unfold set_calibrated_train_speed. break_goal; first [apply set_train_speed_ret01 | intros H; inversion H; auto].
  - unfold emergency_stop_train. break_goal; intros H; inversion H; auto.
  - unfold set_train_peripheral. break_goal; intros H; inversion H; auto.
  - unfold set_booster_power_state. break_goal; intros H; inversion H; auto.
  - unfold set_track_output_state. break_goal; intros H; inversion H; auto.
  - unfold set_track_output_state_all. intros H; inversion H; auto.
  - unfold request_reverser_state. break_goal; intros H; inversion H; auto.
Qed.

Lemma set_train_speed_nofault w t s o f : wfb w = true -> set_train_speed w t s o <> Fault f.
Proof.
  intros Hwf. unfold set_train_speed.
  destruct ((s <? -126)%Z || (126 <? s)%Z)%bool; [discriminate|].
  destruct (find_train w t) as [tr|] eqn:Et; [|discriminate].
  destruct (find_board w o) as [b|]; [|discriminate].
  destruct (negb (b_conn b)); [discriminate|]. destruct (negb (is_track_output b)); [discriminate|].
  apply (find_key_in tr_id) in Et as [Ht1 Ht2]. destruct (tst_of_train w tr Hwf Ht1) as [ts [Hts _]]. rewrite Ht2 in Hts.
  rewrite Hts. destruct (s =? 0)%Z; destruct (send_cs_drive _ _ _); discriminate.
Qed.

Lemma cmd_nofault w c f : wfb w = true -> cmd w c <> Fault f.
Proof.
  intros Hwf. destruct c; cbn [cmd].
  - unfold set_accessory. break_goal; discriminate.
  - unfold set_accessory. break_goal; discriminate.
  - unfold set_peripheral. break_goal; discriminate.
  - apply set_train_speed_nofault, Hwf.
  - unfold set_calibrated_train_speed.
    destruct ((speed <? -9)%Z || (9 <? speed)%Z)%bool eqn:Er; [discriminate|].
    destruct (find_train w t) as [tr|] eqn:Et; [|discriminate].
    destruct (tr_calib tr) as [cal|] eqn:Ecal; [|discriminate].
    destruct (speed =? 0)%Z eqn:E0; [apply set_train_speed_nofault, Hwf|].
    apply orb_false_iff in Er as [E1 E2]. apply Z.ltb_ge in E1, E2. apply Z.eqb_neq in E0.
    apply (find_key_in tr_id) in Et as [Ht1 Ht2].
    pose proof (wfb_parts w Hwf) as (_ & _ & _ & Hwt & _).
    pose proof (proj1 (forallb_forall _ _) Hwt tr Ht1) as W. unfold wf_train in W. rewrite Ecal in W.
    apply andb_true_iff in W as [_ W]. apply andb_true_iff in W as [Wl _]. apply Nat.eqb_eq in Wl.
    destruct (nth_error cal (Nat.pred (Z.abs_nat speed))) eqn:En; [apply set_train_speed_nofault, Hwf|].
    apply nth_error_None in En. lia.
  - unfold emergency_stop_train. break_goal; discriminate.
  - unfold set_train_peripheral. destruct (1 <? state); [discriminate|].
    destruct (find_train w t) as [tr|] eqn:Et; [|discriminate].
    destruct (find_board w out) as [b|]; [|discriminate].
    destruct (negb (b_conn b)); [discriminate|]. destruct (negb (is_track_output b)); [discriminate|].
    destruct (find (fun m => tp_id m =? p) (tr_pers tr)) as [m|] eqn:Ep; [|discriminate].
    apply (find_key_in tr_id) in Et as [Ht1 Ht2]. destruct (tst_of_train w tr Hwf Ht1) as [ts [Hts Hwts]].
    apply (find_key_in tp_id) in Ep as [Hm _].
    destruct ((5 <=? tp_bit m) && (tp_bit m <=? 7)); [discriminate|].
    destruct (tp_group (tp_bit m)) as [[[act lo] hi] idx].
    rewrite (cur_bits_ok w tr ts Hwf Ht1 Hts Hwts lo hi).
    pose proof (fn_bit32 w tr Hwf Ht1 m Hm) as H32. apply N.leb_gt in H32. rewrite H32.
    destruct (send_cs_drive _ _ _). discriminate.
  - unfold set_booster_power_state. break_goal; discriminate.
  - unfold set_track_output_state. break_goal; discriminate.
  - unfold set_track_output_state_all. discriminate.
  - unfold request_reverser_state. break_goal; discriminate.
Qed.

Lemma cmd_total w c : wfb w = true -> exists r m w', cmd w c = Done r m w' /\ (r = 0 \/ r = 1).
Proof.
  intros Hwf. destruct (cmd w c) as [f|r m w'] eqn:E.
  - exfalso. exact (cmd_nofault w c f Hwf E).
  - exists r, m, w'. split; [reflexivity|]. exact (cmd_ret01 w c r m w' E).
Qed.

(* ================================================================== well-formedness is preserved *)
Definition keeps (w w' : world) : Prop :=
  w_boards w' = w_boards w /\ w_trains w' = w_trains w /\
  (forallb2 wf_tst (w_trains w) (w_tst w) = true -> forallb2 wf_tst (w_trains w) (w_tst w') = true) /\
  map ds_id (w_dpts w') = map ds_id (w_dpts w) /\ map ds_id (w_dsigs w') = map ds_id (w_dsigs w) /\
  map rs_id (w_revs w') = map rs_id (w_revs w).

Lemma keeps_refl w : keeps w w.
Proof. repeat split; auto. Qed.
Lemma keeps_trans a b c : keeps a b -> keeps b c -> keeps a c.
Proof.
  intros (A1 & A2 & A3 & A4 & A5 & A6) (B1 & B2 & B3 & B4 & B5 & B6). rewrite A2 in B3.
  repeat split; try congruence. auto.
Qed.

Lemma keeps_wfb w w' : keeps w w' -> wfb w = true -> wfb w' = true.
Proof.
  intros (K1 & K2 & K3 & K4 & K5 & K6) H. unfold wfb in *. unfold all_dacc in *. rewrite K1, K2, K4, K5, K6.
  repeat (apply andb_true_iff in H; destruct H as [H ?]).
  repeat (apply andb_true_iff; split); try assumption. apply K3. assumption.
Qed.

Lemma forallb2_upd_first {A B} (R : A -> B -> bool) p f : forall l1 l2,
  (forall x y, R x y = true -> R x (f y) = true) -> forallb2 R l1 l2 = true -> forallb2 R l1 (upd_first p f l2) = true.
Proof.
  induction l1 as [|x l1 IH]; intros [|y l2] Hf H; try discriminate; [reflexivity|].
  cbn in *. apply andb_true_iff in H as [H1 H2]. destruct (p y); cbn; apply andb_true_iff; split; auto.
Qed.

Lemma fbit_le1 fb i : fbit fb i <= 1.
Proof.
  unfold fbit. change 1 with (N.ones 1) at 1. rewrite N.land_ones. change (2 ^ 1) with 2.
  pose proof (N.mod_upper_bound (N.shiftr (nth (N.to_nat (i / 8)) fb 0) (i mod 8)) 2). lia.
Qed.

Definition ps_ok (ids : list N) (ps : list tpst) : Prop :=
  map tq_id ps = ids /\ forallb (fun q => tq_state q <=? 1) ps = true.

Lemma upd_first_set_ok ids ps k v : v <= 1 -> ps_ok ids ps ->
  ps_ok ids (upd_first (fun q => tq_id q =? k) (fun q => mk_tpst (tq_id q) v) ps).
Proof.
  intros Hv [H1 H2]. split.
  - rewrite (upd_first_keys tq_id); [exact H1|reflexivity].
  - clear H1. induction ps as [|q ps IH]; [reflexivity|]. cbn in *. apply andb_true_iff in H2 as [Hq Hr].
    destruct (tq_id q =? k); cbn; apply andb_true_iff; split; auto. apply N.leb_le. exact Hv.
Qed.

Lemma drive_bit_ok w tsid fb ids ps i : ps_ok ids ps -> ps_ok ids (drive_bit w tsid fb ps i).
Proof.
  intros H. unfold drive_bit. destruct (find_train w tsid) as [tr|]; [|exact H].
  destruct (find (fun m => tp_bit m =? i) (tr_pers tr)) as [m|]; [|exact H].
  apply upd_first_set_ok; [apply fbit_le1|exact H].
Qed.

Lemma drive_group_ps_ok w tsid fb ids lo n : forall ps, ps_ok ids ps -> ps_ok ids (drive_group w tsid fb lo n ps).
Proof.
  unfold drive_group. generalize (nrange lo n). intros l. induction l as [|i l IH]; intros ps H; [exact H|].
  cbn [fold_left]. apply IH. apply drive_bit_ok. exact H.
Qed.

Lemma wf_tst_drive_update w p tr ts : wf_tst tr ts = true -> wf_tst tr (drive_update w p ts) = true.
Proof.
  intros H. unfold wf_tst in H. apply andb_true_iff in H as [H H3]. apply andb_true_iff in H as [H1 H2].
  apply list_eqb_eq in H2.
  assert (ps_ok (map tp_id (tr_pers tr)) (ts_pers ts)) as P0 by (split; assumption).
  assert (forall ps, ps_ok (map tp_id (tr_pers tr)) ps ->
            (ts_id ts =? tr_id tr) && list_eqb (map tq_id ps) (map tp_id (tr_pers tr)) && forallb (fun q => tq_state q <=? 1) ps = true) as Fin.
  { intros ps [P1 P2]. rewrite H1, P1, list_eqb_refl, P2. reflexivity. }
  unfold drive_update. destruct (dv_active p =? 0).
  - unfold wf_tst. cbn [ts_id ts_pers]. apply Fin. split.
    + rewrite map_map. cbn. exact H2.
    + apply forallb_forall. intros q Hq. apply in_map_iff in Hq as [q0 [<- _]]. reflexivity.
  - unfold wf_tst. cbn [ts_id ts_pers]. apply Fin.
    repeat match goal with
           | |- ps_ok _ (if ?c then _ else _) => destruct c
           | |- ps_ok _ (drive_group _ _ _ _ _ _) => apply drive_group_ps_ok
           end; exact P0.
Qed.

Lemma state_cs_drive_keeps w p : keeps w (state_cs_drive w p).
Proof.
  unfold state_cs_drive. destruct (find_train_by_dcc w (dv_addrl p) (dv_addrh p)) as [tr|]; [|apply keeps_refl].
  repeat split; auto. cbn [w_tst set_tst w_trains]. intros H. apply forallb2_upd_first; [|exact H].
  intros x y. apply wf_tst_drive_update.
Qed.

Lemma send_cs_drive_keeps w a p : keeps w (snd (send_cs_drive w a p)).
Proof. unfold send_cs_drive. break_goal; cbn [snd]; first [apply keeps_refl|apply state_cs_drive_keeps]. Qed.

Lemma set_dacc_st_keeps (point : bool) w l : map ds_id l = map ds_id (get_dacc_st point w) -> keeps w (set_dacc_st point w l).
Proof. destruct point; cbn; intros H; repeat split; auto. Qed.

Lemma state_cs_accessory_keeps w a al ah d t : keeps w (state_cs_accessory w a al ah d t).
Proof.
  unfold state_cs_accessory.
  destruct (find_board_by_addr w a) as [b|]; [|apply keeps_refl].
  destruct (find (dacc_addr_eqb al ah) (b_dpts b)) as [m|].
  - apply set_dacc_st_keeps. apply (upd_first_keys ds_id). reflexivity.
  - destruct (find (dacc_addr_eqb al ah) (b_dsigs b)) as [m|]; [|apply keeps_refl].
    apply set_dacc_st_keeps. apply (upd_first_keys ds_id). reflexivity.
Qed.

Lemma dcc_ports_fold_keeps a m ports : forall acc, keeps (snd acc) (snd (fold_left (dcc_ports_step a m) ports acc)).
Proof.
  induction ports as [|pv ports IH]; intros acc; [apply keeps_refl|]. cbn [fold_left].
  eapply keeps_trans; [|apply IH]. unfold dcc_ports_step, send_cs_accessory. cbn [snd].
  apply state_cs_accessory_keeps.
Qed.

Lemma set_train_speed_keeps w t s o r m w' : set_train_speed w t s o = Done r m w' -> keeps w w'.
Proof.
  unfold set_train_speed. break_goal; intros H; inversion H; subst; try apply keeps_refl.
  all: match goal with Hs : send_cs_drive ?w0 ?a ?p = (_, ?w1) |- keeps ?w0 ?w1 =>
         let K := fresh in pose proof (send_cs_drive_keeps w0 a p) as K; rewrite Hs in K; exact K end.
Qed.

Definition res_w (d : world) (r : res) : world := match r with Done _ _ w' => w' | Fault _ => d end.

Lemma set_accessory_keeps (point : bool) w id asp r m w' : set_accessory point w id asp = Done r m w' -> keeps w w'.
Proof.
  unfold set_accessory. destruct (acc_search point (w_boards w) id) as [[b [mb|md]]|].
  - break_goal; intros H; inversion H; subst; apply keeps_refl.
  - destruct (negb (b_conn b)); [intros H; inversion H; subst; apply keeps_refl|].
    destruct (find_daspect (dc_aspects md) asp) as [a|]; [|intros H; inversion H; subst; apply keeps_refl].
    destruct (fold_left (dcc_ports_step (b_addr b) md) (da_ports a) ([], w)) as [ms w1] eqn:Ef.
    pose proof (dcc_ports_fold_keeps (b_addr b) md (da_ports a) ([], w)) as K. rewrite Ef in K. cbn [snd] in K.
    destruct (existsb (fun s => ds_id s =? id) (get_dacc_st point w1)); intros H; apply (f_equal (res_w w)) in H; cbn [res_w] in H; subst w'.
    + eapply keeps_trans; [exact K|]. apply set_dacc_st_keeps. apply (upd_first_keys ds_id). reflexivity.
    + exact K.
  - intros H; inversion H; subst; apply keeps_refl.
Qed.

Lemma cmd_keeps w c r m w' : cmd w c = Done r m w' -> keeps w w'.
Proof.
  destruct c; cbn [cmd].
  - apply set_accessory_keeps.
  - apply set_accessory_keeps.
  - unfold set_peripheral. break_goal; intros H; inversion H; subst; apply keeps_refl.
  - apply set_train_speed_keeps.
  - unfold set_calibrated_train_speed. break_goal; first [apply set_train_speed_keeps | intros H; inversion H; subst; apply keeps_refl].
  - unfold emergency_stop_train. break_goal; intros H; inversion H; subst; try apply keeps_refl.
    all: match goal with Hs : send_cs_drive ?w0 ?a ?p = (_, ?w1) |- keeps ?w0 ?w1 =>
           let K := fresh in pose proof (send_cs_drive_keeps w0 a p) as K; rewrite Hs in K; exact K end.
  - unfold set_train_peripheral. break_goal; intros H; inversion H; subst; try apply keeps_refl.
    all: match goal with Hs : send_cs_drive ?w0 ?a ?p = (_, ?w1) |- keeps ?w0 ?w1 =>
           let K := fresh in pose proof (send_cs_drive_keeps w0 a p) as K; rewrite Hs in K; exact K end.
  - unfold set_booster_power_state. break_goal; intros H; inversion H; subst; apply keeps_refl.
  - unfold set_track_output_state. break_goal; intros H; inversion H; subst; apply keeps_refl.
  - unfold set_track_output_state_all. intros H; inversion H; subst; apply keeps_refl.
  - unfold request_reverser_state. break_goal; intros H; inversion H; subst; try apply keeps_refl.
    repeat split; auto. cbn [w_revs set_revs]. apply (upd_first_keys rs_id). reflexivity.
Qed.

Lemma cmd_preserves_wf w c r m w' : wfb w = true -> cmd w c = Done r m w' -> wfb w' = true.
Proof. intros Hwf H. exact (keeps_wfb w w' (cmd_keeps w c r m w' H) Hwf). Qed.

(* ================================================================== node new / node lost / reverser feedback keep well-formedness *)
Definition board_static (b : board) :=
  (b_id b, b_uid b, b_pts b, b_dpts b, b_sigs b, b_dsigs b, b_pers b, b_revs b).

Lemma board_set_conn_static b c a : board_static (board_set_conn b c a) = board_static b.
Proof. reflexivity. Qed.

Lemma map_static_eq {B} (g : board -> B) l l' : (forall b b', board_static b = board_static b' -> g b = g b') ->
  map board_static l' = map board_static l -> map g l' = map g l.
Proof.
  intros Hg. revert l'. induction l as [|x l IH]; intros [|y l'] H; try discriminate; [reflexivity|].
  pose proof (f_equal (@hd _ (board_static x)) H) as H1; pose proof (f_equal (@tl _) H) as H2; cbn [hd tl map] in H1, H2. cbn [map]. f_equal; [apply Hg; assumption|apply IH; assumption].
Qed.

Lemma flat_map_static_eq {B} (g : board -> list B) l l' : (forall b b', board_static b = board_static b' -> g b = g b') ->
  map board_static l' = map board_static l -> flat_map g l' = flat_map g l.
Proof. intros Hg H. rewrite !flat_map_concat_map. f_equal. apply map_static_eq; assumption. Qed.

Lemma forallb_static_eq (g : board -> bool) l l' : (forall b b', board_static b = board_static b' -> g b = g b') ->
  map board_static l' = map board_static l -> forallb g l' = forallb g l.
Proof.
  intros Hg. revert l'. induction l as [|x l IH]; intros [|y l'] H; try discriminate; [reflexivity|].
  pose proof (f_equal (@hd _ (board_static x)) H) as H1; pose proof (f_equal (@tl _) H) as H2; cbn [hd tl map] in H1, H2. cbn [forallb]. f_equal; [apply Hg; assumption|apply IH; assumption].
Qed.

Lemma boards_static_wfb w bs : map board_static bs = map board_static (w_boards w) -> wfb w = true -> wfb (set_boards w bs) = true.
Proof.
  intros Hs H. unfold wfb in *. unfold all_dacc in *. cbn [set_boards w_boards w_trains w_tst w_dpts w_dsigs w_revs].
  assert (forall b b', board_static b = board_static b' ->
            b_id b = b_id b' /\ b_pts b = b_pts b' /\ b_dpts b = b_dpts b' /\ b_sigs b = b_sigs b' /\ b_dsigs b = b_dsigs b' /\
            b_pers b = b_pers b' /\ b_revs b = b_revs b') as St.
  { intros b b' E. unfold board_static in E. inversion E. repeat split; assumption. }
  rewrite (map_static_eq b_id _ _ (fun b b' E => proj1 (St b b' E)) Hs).
  rewrite (forallb_static_eq wf_board (w_boards w) bs).
  2:{ intros b b' E. destruct (St b b' E) as (_ & E2 & E3 & E4 & E5 & E6 & _). unfold wf_board. rewrite E2, E3, E4, E5, E6. reflexivity. }
  2: exact Hs.
  rewrite (flat_map_static_eq (fun b => map ba_id (b_pts b) ++ map dc_id (b_dpts b)) (w_boards w) bs).
  2:{ intros b b' E. destruct (St b b' E) as (_ & E2 & E3 & _). rewrite E2, E3. reflexivity. } 2: exact Hs.
  rewrite (flat_map_static_eq (fun b => map ba_id (b_sigs b) ++ map dc_id (b_dsigs b)) (w_boards w) bs).
  2:{ intros b b' E. destruct (St b b' E) as (_ & _ & _ & E4 & E5 & _). rewrite E4, E5. reflexivity. } 2: exact Hs.
  rewrite (flat_map_static_eq (fun b => map pe_id (b_pers b)) (w_boards w) bs).
  2:{ intros b b' E. destruct (St b b' E) as (_ & _ & _ & _ & _ & E6 & _). rewrite E6. reflexivity. } 2: exact Hs.
  rewrite (flat_map_static_eq (fun b => map rv_id (b_revs b)) (w_boards w) bs).
  2:{ intros b b' E. destruct (St b b' E) as (_ & _ & _ & _ & _ & _ & E7). rewrite E7. reflexivity. } 2: exact Hs.
  rewrite (flat_map_static_eq (fun b => map dc_id (b_dpts b)) (w_boards w) bs).
  2:{ intros b b' E. destruct (St b b' E) as (_ & _ & E3 & _). rewrite E3. reflexivity. } 2: exact Hs.
  rewrite (flat_map_static_eq (fun b => map dc_id (b_dsigs b)) (w_boards w) bs).
  2:{ intros b b' E. destruct (St b b' E) as (_ & _ & _ & _ & E5 & _). rewrite E5. reflexivity. } 2: exact Hs.
  rewrite (flat_map_static_eq (fun b => b_dpts b ++ b_dsigs b) (w_boards w) bs).
  2:{ intros b b' E. destruct (St b b' E) as (_ & _ & E3 & _ & E5 & _). rewrite E3, E5. reflexivity. } 2: exact Hs.
  exact H.
Qed.

Lemma upd_first_static p c a l : map board_static (upd_first p (fun b => board_set_conn b c (a b)) l) = map board_static l.
Proof. induction l as [|x l IH]; [reflexivity|]. cbn. destruct (p x); cbn; [reflexivity|rewrite IH; reflexivity]. Qed.

Lemma node_new_wf w parent local uid : wfb w = true -> wfb (node_new w parent local uid) = true.
Proof.
  intros H. unfold node_new. apply boards_static_wfb; [|exact H].
  apply (upd_first_static _ true (fun _ => node_new_addr parent local)).
Qed.

Lemma node_lost_wf w uid : wfb w = true -> wfb (node_lost w uid) = true.
Proof.
  intros H. unfold node_lost. destruct (find (fun b => list_eqb (b_uid b) uid) (w_boards w)) as [b0|]; [|exact H].
  pose proof (upd_first_static (fun b => list_eqb (b_uid b) uid) false b_addr (w_boards w)) as S1.
  destruct (N.testbit (b_class b0) 7); apply boards_static_wfb; try exact H; [|exact S1].
  rewrite <- S1. rewrite map_map. apply map_ext. intros b. destruct (is_subnode (b_addr b0) (b_addr b)); reflexivity.
Qed.

Lemma rev_feedback_wf w id v : wfb w = true -> wfb (rev_feedback w id v) = true.
Proof.
  intros H. apply (keeps_wfb w); [|exact H]. repeat split; auto. cbn [w_revs rev_feedback set_revs].
  apply (upd_first_keys rs_id). reflexivity.
Qed.

(* ================================================================== any order: event sequences *)
Inductive event :=
| ECmd (c : command)
| ENodeNew (parent : addr3) (local : N) (uid : list N)
| ENodeLost (uid : list N)
| ERevFeedback (id v : N).

Definition step (w : world) (e : event) : option (option (N * list hmsg) * world) :=
  match e with
  | ECmd c => match cmd w c with Fault _ => None | Done r m w' => Some (Some (r, m), w') end
  | ENodeNew p l u => Some (None, node_new w p l u)
  | ENodeLost u => Some (None, node_lost w u)
  | ERevFeedback i v => Some (None, rev_feedback w i v)
  end.

Fixpoint run (w : world) (es : list event) : option (list (option (N * list hmsg)) * world) :=
  match es with
  | [] => Some ([], w)
  | e :: r => match step w e with
              | None => None
              | Some (o, w1) => match run w1 r with None => None | Some (os, w2) => Some (o :: os, w2) end
              end
  end.

Lemma step_wf w e : wfb w = true -> exists o w', step w e = Some (o, w') /\ wfb w' = true.
Proof.
  intros H. destruct e; cbn [step].
  - destruct (cmd_total w c H) as (r & m & w' & E & _). rewrite E. eexists; eexists. split; [reflexivity|].
    exact (cmd_preserves_wf w c r m w' H E).
  - eexists; eexists. split; [reflexivity|]. apply node_new_wf, H.
  - eexists; eexists. split; [reflexivity|]. apply node_lost_wf, H.
  - eexists; eexists. split; [reflexivity|]. apply rev_feedback_wf, H.
Qed.

(* from a well-formed world every event sequence runs without a fault and ends in a well-formed world; hence
   every per-command theorem applies at every step of any history *)
Lemma run_wf es : forall w, wfb w = true -> exists os w', run w es = Some (os, w') /\ wfb w' = true.
Proof.
  induction es as [|e es IH]; intros w H; [exists [], w; auto|]. cbn [run].
  destruct (step_wf w e H) as (o & w1 & E & H1). rewrite E.
  destruct (IH w1 H1) as (os & w2 & E2 & H2). rewrite E2. eexists; eexists. split; [reflexivity|exact H2].
Qed.

Lemma init_world_wf_example : wfb (init_world [wit_b1; wit_b6] [wit_tr7; wit_tr12]) = true.
Proof. vm_compute. reflexivity. Qed.

(* ================================================================== DCC accessories (points-dcc / signals-dcc) *)
Lemma addr_eqb_refl a : addr_eqb a a = true.
Proof. destruct a as [[x y] z]. cbn. rewrite !N.eqb_refl. reflexivity. Qed.
Lemma addr_eqb_sym a b : addr_eqb a b = addr_eqb b a.
Proof. destruct a as [[x y] z], b as [[x' y'] z']. cbn. rewrite (N.eqb_sym x), (N.eqb_sym y), (N.eqb_sym z). reflexivity. Qed.

Lemma find_board_by_addr_own bs b : conn_addrs_distinct bs = true -> In b bs -> b_conn b = true ->
  find (fun c => b_conn c && addr_eqb (b_addr c) (b_addr b)) bs = Some b.
Proof.
  induction bs as [|c r IH]; intros Hd Hin Hc; [contradiction|]. cbn in Hd. apply andb_true_iff in Hd as [Hc1 Hd].
  cbn [find]. destruct (b_conn c && addr_eqb (b_addr c) (b_addr b)) eqn:E.
  - destruct Hin as [->|Hin]; [reflexivity|]. exfalso. apply andb_true_iff in E as [E1 E2]. rewrite E1 in Hc1. cbn in Hc1.
    apply negb_true_iff in Hc1. apply not_true_iff_false in Hc1. apply Hc1. apply existsb_exists. exists b.
    split; [exact Hin|]. rewrite Hc, addr_eqb_sym, E2. reflexivity.
  - destruct Hin as [->|Hin]; [rewrite Hc, addr_eqb_refl in E; discriminate|]. apply IH; assumption.
Qed.

Definition dkey (m : dacc) : N * N := (dc_addrl m, dc_addrh m).

Lemma nodupb2_app_l a b : nodupb2 (a ++ b) = true -> nodupb2 a = true.
Proof.
  induction a as [|x a IH]; intros H; [reflexivity|]. cbn in *. apply andb_true_iff in H as [H1 H2].
  apply andb_true_iff. split; [|auto]. rewrite existsb_app in H1. apply negb_true_iff in H1. apply orb_false_iff in H1 as [H1 _].
  rewrite H1. reflexivity.
Qed.

Lemma nodupb2_flat_map_in {A} (g : A -> list dacc) bs b : nodupb2 (map dkey (flat_map g bs)) = true -> In b bs ->
  nodupb2 (map dkey (g b)) = true.
Proof.
  induction bs as [|c r IH]; intros H Hin; [contradiction|]. cbn [flat_map] in H. rewrite map_app in H.
  destruct Hin as [->|Hin]; [apply nodupb2_app_l in H; exact H|]. apply nodupb2_app_r in H. auto.
Qed.

Lemma find_dacc_unique l m : nodupb2 (map dkey l) = true -> In m l -> find (dacc_addr_eqb (dc_addrl m) (dc_addrh m)) l = Some m.
Proof.
  induction l as [|x l IH]; intros Hnd Hin; [contradiction|]. cbn in Hnd. apply andb_true_iff in Hnd as [Hx Hnd].
  cbn [find]. unfold dacc_addr_eqb at 1. destruct Hin as [->|Hin].
  - rewrite !N.eqb_refl. reflexivity.
  - destruct ((dc_addrh x =? dc_addrh m) && (dc_addrl x =? dc_addrl m)) eqn:E; [|auto].
    exfalso. apply negb_true_iff in Hx. apply not_true_iff_false in Hx. apply Hx.
    apply existsb_exists. exists (dkey m). split; [apply in_map, Hin|].
    apply andb_true_iff in E as [E1 E2]. cbn. rewrite E1, E2. reflexivity.
Qed.

Lemma find_dacc_none l1 l2 m : nodupb2 (map dkey (l1 ++ l2)) = true -> In m l2 ->
  find (dacc_addr_eqb (dc_addrl m) (dc_addrh m)) l1 = None.
Proof.
  induction l1 as [|x l1 IH]; intros Hnd Hin; [reflexivity|]. cbn in Hnd. apply andb_true_iff in Hnd as [Hx Hnd].
  cbn [find]. unfold dacc_addr_eqb at 1.
  destruct ((dc_addrh x =? dc_addrh m) && (dc_addrl x =? dc_addrl m)) eqn:E; [|auto].
  exfalso. apply negb_true_iff in Hx. apply not_true_iff_false in Hx. apply Hx.
  apply existsb_exists. exists (dkey m). split; [apply in_map, in_or_app; right; exact Hin|].
  apply andb_true_iff in E as [E1 E2]. cbn. rewrite E1, E2. reflexivity.
Qed.

Lemma board_dacc_nodup w b : wfb w = true -> In b (w_boards w) -> nodupb2 (map dkey (b_dpts b ++ b_dsigs b)) = true.
Proof.
  intros Hwf Hb. apply wfb_parts in Hwf. destruct Hwf as (_ & _ & _ & _ & _ & _ & _ & _ & _ & _ & _ & _ & Hd).
  apply nodupb2_app_l in Hd. unfold all_dacc in Hd.
  exact (nodupb2_flat_map_in (fun b => b_dpts b ++ b_dsigs b) (w_boards w) b Hd Hb).
Qed.

(* what one MSG_CS_ACCESSORY with time 0 does to the tracked state of its accessory *)
Definition upd_d (data : N) (s : dst) : dst :=
  mk_dst (ds_id s) None (N.land data 31) (N.testbit data 5) (negb (N.testbit data 6)) 0 0 (ds_ack s).
Definition ports_upd (ext : N) (ports : list (N * N)) (s : dst) : dst :=
  fold_left (fun s pv => upd_d (dcc_port_data ext pv) s) ports s.
Definition set_sid (a : N) (s : dst) : dst :=
  mk_dst (ds_id s) (Some a) (ds_val s) (ds_coil s) (ds_oct s) (ds_unit s) (ds_time s) (ds_ack s).

Lemma ports_upd_id ext ports : forall s, ds_id (ports_upd ext ports s) = ds_id s.
Proof. induction ports as [|pv l IH]; intros s; [reflexivity|]. unfold ports_upd in *. cbn [fold_left]. rewrite IH. reflexivity. Qed.
Lemma ports_upd_ack ext ports : forall s, ds_ack (ports_upd ext ports s) = ds_ack s.
Proof. induction ports as [|pv l IH]; intros s; [reflexivity|]. unfold ports_upd in *. cbn [fold_left]. rewrite IH. reflexivity. Qed.
Lemma ports_upd_last ext ports pv s : ports_upd ext (ports ++ [pv]) s = upd_d (dcc_port_data ext pv) s.
Proof.
  unfold ports_upd. rewrite fold_left_app. cbn [fold_left]. unfold upd_d at 1.
  fold (ports_upd ext ports s). rewrite ports_upd_id, ports_upd_ack. reflexivity.
Qed.

Lemma upd_first_compose {A} (p : A -> bool) (f g : A -> A) l : (forall x, p (f x) = p x) ->
  upd_first p g (upd_first p f l) = upd_first p (fun x => g (f x)) l.
Proof.
  intros Hp. induction l as [|x l IH]; [reflexivity|]. cbn. destruct (p x) eqn:E; cbn.
  - rewrite Hp, E. reflexivity.
  - rewrite E, IH. reflexivity.
Qed.
Lemma upd_first_ext {A} (p : A -> bool) (f g : A -> A) l : (forall x, f x = g x) -> upd_first p f l = upd_first p g l.
Proof. intros H. induction l as [|x l IH]; [reflexivity|]. cbn. rewrite H, IH. reflexivity. Qed.
Lemma upd_first_idfun {A} (p : A -> bool) l : upd_first p (fun x => x) l = l.
Proof. induction l as [|x l IH]; [reflexivity|]. cbn. rewrite IH. destruct (p x); reflexivity. Qed.

Lemma set_dacc_st_get (point : bool) w : set_dacc_st point w (get_dacc_st point w) = w.
Proof. destruct w, point; reflexivity. Qed.
Lemma get_set_dacc_st (point : bool) w l : get_dacc_st point (set_dacc_st point w l) = l.
Proof. destruct point; reflexivity. Qed.
Lemma set_set_dacc_st (point : bool) w l1 l2 : set_dacc_st point (set_dacc_st point w l1) l2 = set_dacc_st point w l2.
Proof. destruct point; reflexivity. Qed.
Lemma set_dacc_st_boards (point : bool) w l : w_boards (set_dacc_st point w l) = w_boards w.
Proof. destruct point; reflexivity. Qed.

Section Dcc.
  Variables (point : bool) (w : world) (b : board) (m : dacc).
  Hypothesis Hwf : wfb w = true.
  Hypothesis Hdist : conn_addrs_distinct (w_boards w) = true.
  Hypothesis Hb : In b (w_boards w).
  Hypothesis Hm : In m (if point then b_dpts b else b_dsigs b).
  Hypothesis Hc : b_conn b = true.
  Let P := fun s : dst => ds_id s =? dc_id m.

  Lemma state_cs_accessory_own w1 data : w_boards w1 = w_boards w ->
    state_cs_accessory w1 (b_addr b) (dc_addrl m) (dc_addrh m) data 0 =
    set_dacc_st point w1 (upd_first P (upd_d data) (get_dacc_st point w1)).
  Proof.
    intros Hbs. unfold state_cs_accessory, find_board_by_addr. rewrite Hbs, (find_board_by_addr_own _ b Hdist Hb Hc).
    pose proof (board_dacc_nodup w b Hwf Hb) as Hnd. destruct point.
    - rewrite (find_dacc_unique (b_dpts b) m); [reflexivity| |exact Hm]. rewrite map_app in Hnd. apply nodupb2_app_l in Hnd. exact Hnd.
    - rewrite (find_dacc_none (b_dpts b) (b_dsigs b) m Hnd Hm).
      rewrite (find_dacc_unique (b_dsigs b) m); [reflexivity| |exact Hm]. rewrite map_app in Hnd. apply nodupb2_app_r in Hnd. exact Hnd.
  Qed.

  Lemma dcc_ports_fold_own ports : forall ms w1, w_boards w1 = w_boards w ->
    fold_left (dcc_ports_step (b_addr b) m) ports (ms, w1) =
    (ms ++ map (fun pv => (b_addr b, MSG_CS_ACCESSORY, [dc_addrl m; dc_addrh m; dcc_port_data (dc_ext m) pv; 0])) ports,
     set_dacc_st point w1 (upd_first P (ports_upd (dc_ext m) ports) (get_dacc_st point w1))).
  Proof.
    induction ports as [|pv ports IH]; intros ms w1 Hbs.
    - cbn. rewrite app_nil_r. unfold ports_upd. cbn [fold_left]. rewrite upd_first_idfun, set_dacc_st_get. reflexivity.
    - cbn [fold_left]. unfold dcc_ports_step at 2. unfold send_cs_accessory. cbn [fst snd].
      rewrite (state_cs_accessory_own w1 _ Hbs). rewrite IH by (rewrite set_dacc_st_boards; exact Hbs).
      rewrite get_set_dacc_st, set_set_dacc_st, upd_first_compose by reflexivity.
      cbn [map]. rewrite <- app_assoc. reflexivity.
  Qed.

  Lemma dcc_accessory_ok a : In a (dc_aspects m) ->
    set_accessory point w (dc_id m) (da_id a) =
    Done 0 (map (fun pv => (b_addr b, MSG_CS_ACCESSORY, [dc_addrl m; dc_addrh m; dcc_port_data (dc_ext m) pv; 0])) (da_ports a))
         (set_dacc_st point w (upd_first P (fun s => set_sid (da_id a) (ports_upd (dc_ext m) (da_ports a) s)) (get_dacc_st point w))).
  Proof.
    intros Ha. unfold set_accessory.
    rewrite (acc_search_dcc_unique point (w_boards w) b m (wfb_acc_nodup point w Hwf) Hb Hm), Hc. cbn [negb].
    rewrite (dacc_aspect_unique point w b m a Hwf Hb Hm Ha).
    rewrite (dcc_ports_fold_own (da_ports a) [] w eq_refl). cbn [app].
    rewrite get_set_dacc_st.
    assert (existsb (fun s => ds_id s =? dc_id m) (upd_first P (ports_upd (dc_ext m) (da_ports a)) (get_dacc_st point w)) = true) as ->.
    { unfold P. apply (existsb_key_in ds_id). rewrite (upd_first_keys ds_id) by (intros; apply ports_upd_id).
      exact (dacc_state_exists point w b m Hwf Hb Hm). }
    rewrite set_set_dacc_st. fold P. rewrite upd_first_compose.
    - reflexivity.
    - intros x. unfold P. rewrite ports_upd_id. reflexivity.
  Qed.
End Dcc.

(* the data byte: port in bits 0-4, value in bit 5, extended flag in bit 7 *)
Definition port_data_check (x : N) : bool :=
  (dcc_port_data 0 (x, 0) =? x) && (dcc_port_data 0 (x, 1) =? x + 32) &&
  (dcc_port_data 1 (x, 0) =? x + 128) && (dcc_port_data 1 (x, 1) =? x + 160).
Lemma port_data_all : forallb port_data_check (nrange 0 32) = true.
Proof. vm_compute. reflexivity. Qed.

Lemma dcc_port_data_spec ext p v : ext <= 1 -> v <= 1 -> dcc_port_data ext (p, v) = p mod 32 + 32 * v + 128 * ext.
Proof.
  intros He Hv.
  assert (dcc_port_data ext (p, v) = dcc_port_data ext (p mod 32, v)) as ->.
  { unfold dcc_port_data. cbn [fst snd]. change 31 with (N.ones 5). rewrite !N.land_ones. rewrite N.mod_mod by discriminate. reflexivity. }
  assert (In (p mod 32) (nrange 0 32)) as Hin. { apply nrange_in. pose proof (N.mod_upper_bound p 32). cbn. lia. }
  pose proof (proj1 (forallb_forall _ _) port_data_all _ Hin) as C. unfold port_data_check in C.
  apply andb_true_iff in C as [C C4]. apply andb_true_iff in C as [C C3]. apply andb_true_iff in C as [C1 C2].
  apply N.eqb_eq in C1, C2, C3, C4.
  assert (ext = 0 \/ ext = 1) as [->| ->] by lia; assert (v = 0 \/ v = 1) as [->| ->] by lia; lia.
Qed.

Lemma dcc_accessory_cmd_ok : forall (point : bool) w b m a, wfb w = true -> conn_addrs_distinct (w_boards w) = true ->
  In b (w_boards w) -> In m (if point then b_dpts b else b_dsigs b) -> b_conn b = true -> In a (dc_aspects m) ->
  cmd w (if point then SwitchPoint (dc_id m) (da_id a) else SetSignal (dc_id m) (da_id a)) =
  Done 0 (map (fun pv => (b_addr b, MSG_CS_ACCESSORY, [dc_addrl m; dc_addrh m; dcc_port_data (dc_ext m) pv; 0])) (da_ports a))
       (set_dacc_st point w (upd_first (fun s => ds_id s =? dc_id m)
                                       (fun s => set_sid (da_id a) (ports_upd (dc_ext m) (da_ports a) s)) (get_dacc_st point w))).
Proof. intros point w b m a Hwf Hd Hb Hm Hc Ha. destruct point; cbn [cmd]; [exact (dcc_accessory_ok true w b m Hwf Hd Hb Hm Hc a Ha)|exact (dcc_accessory_ok false w b m Hwf Hd Hb Hm Hc a Ha)]. Qed.

(* the tracked state of the switched accessory after an aspect with at least one port value *)
Lemma dcc_accessory_final ext a ports pv s :
  set_sid a (ports_upd ext (ports ++ [pv]) s) =
  mk_dst (ds_id s) (Some a) (N.land (dcc_port_data ext pv) 31) (N.testbit (dcc_port_data ext pv) 5)
         (negb (N.testbit (dcc_port_data ext pv) 6)) 0 0 (ds_ack s).
Proof. rewrite ports_upd_last. reflexivity. Qed.

Lemma rev_owned_own bs b m : NoDup (map b_id bs) -> NoDup (flat_map (fun b => map rv_id (b_revs b)) bs) ->
  In b bs -> In m (b_revs b) -> rev_owned bs (b_id b) (rv_id m) = true.
Proof.
  induction bs as [|c bs IH]; intros Hn1 Hn2 Hb Hm; [contradiction|]. cbn [rev_owned]. cbn [map flat_map] in Hn1, Hn2.
  inversion Hn1 as [|? ? Hc1 Hn1']; subst. destruct Hb as [->|Hb].
  - rewrite N.eqb_refl. apply existsb_exists. exists m. split; [exact Hm|apply N.eqb_refl].
  - assert ((b_id c =? b_id b) = false) as ->.
    { apply N.eqb_neq. intros E. apply Hc1. rewrite E. apply in_map, Hb. }
    assert (existsb (fun m0 => rv_id m0 =? rv_id m) (b_revs c) = false) as ->.
    { apply not_true_iff_false. intros E. apply (existsb_key_in rv_id) in E.
      apply (NoDup_app_disj _ _ (rv_id m) Hn2 E). apply in_flat_map. exists b. split; [exact Hb|apply in_map, Hm]. }
    apply IH; [exact Hn1'|apply NoDup_app_r in Hn2; exact Hn2|exact Hb|exact Hm].
Qed.

Lemma reverser_ok w b m : wfb w = true -> In b (w_boards w) -> In m (b_revs b) -> b_conn b = true ->
  (length (rv_cv m) <= 120)%nat ->
  cmd w (RequestReverser (rv_id m) (b_id b)) =
  Done 0 [(b_addr b, MSG_VENDOR_GET, N.of_nat (length (rv_cv m)) :: rv_cv m)]
       (set_revs w (upd_first (fun s => rs_id s =? rv_id m) (fun s => mk_rst (rs_id s) 2) (w_revs w))).
Proof.
  intros Hwf Hb Hm Hc Hl. cbn [cmd]. unfold request_reverser_state.
  rewrite (find_board_unique w b Hwf Hb), Hc. cbn [negb].
  pose proof (wfb_parts w Hwf) as (_ & _ & _ & _ & _ & _ & _ & _ & Hr & _ & _ & Hrs & _).
  rewrite (rev_search_unique (w_boards w) b m Hr Hb Hm).
  assert (existsb (fun s => rs_id s =? rv_id m) (w_revs w) = true) as ->.
  { apply (existsb_key_in rs_id). rewrite Hrs. apply in_flat_map. exists b. split; [exact Hb|apply in_map, Hm]. }
  rewrite (rev_owned_own (w_boards w) b m (proj1 (wfb_parts w Hwf)) Hr Hb Hm). cbn [negb].
  unfold send_vendor_get, byte. rewrite N.mod_small by lia.
  assert ((120 <? N.of_nat (length (rv_cv m))) = false) as -> by (apply N.ltb_ge; lia).
  rewrite Nat2N.id, firstn_all. reflexivity.
Qed.

(* ================================================================== bad commands, direct form *)
Lemma cmd_bad w c : wfb w = true -> ~ accepted w c -> cmd w c = Done 1 [] w.
Proof.
  intros Hwf Hn. destruct (cmd_total w c Hwf) as (r & m & w' & E & [->| ->]).
  - exfalso. apply Hn. exact (cmd_ret0_accepted w c m w' E).
  - destruct (cmd_ret1_silent w c m w' Hwf E) as [-> ->]. exact E.
Qed.

Lemma cmd_bad_examples w : wfb w = true ->
  (forall t s o, (s < -126 \/ 126 < s)%Z -> cmd w (SetTrainSpeed t s o) = Done 1 [] w) /\
  (forall p a, (forall b, In b (w_boards w) -> b_conn b = true ->
                          (forall m, In m (b_pts b) -> ba_id m <> p) /\ (forall m, In m (b_dpts b) -> dc_id m <> p)) ->
               cmd w (SwitchPoint p a) = Done 1 [] w) /\
  (forall t p s o, (forall b, In b (w_boards w) -> b_id b = o -> b_conn b = false) ->
                   cmd w (SetTrainPeripheral t p s o) = Done 1 [] w).
Proof.
  intros Hwf. split; [|split].
  - intros t s o Hs. apply cmd_bad; [exact Hwf|]. cbn [accepted]. intros (H & _). lia.
  - intros p a H. apply cmd_bad; [exact Hwf|]. cbn [accepted]. intros (b & Hb & Hc & [(m & x & Hm & Hid & _)|(m & x & Hm & Hid & _)]).
    + exact (proj1 (H b Hb Hc) m Hm Hid).
    + exact (proj2 (H b Hb Hc) m Hm Hid).
  - intros t p s o H. apply cmd_bad; [exact Hwf|]. cbn [accepted]. intros (_ & _ & b & Hb & Hid & Hc & _).
    rewrite (H b Hb Hid) in Hc. discriminate.
Qed.

(* ================================================================== out-of-range values, direct form (the classes repaired in /repo) *)
Lemma same_id_board w b b' : wfb w = true -> In b (w_boards w) -> In b' (w_boards w) -> b_id b' = b_id b -> b' = b.
Proof.
  intros Hwf H1 H2 E. pose proof (find_board_unique w b Hwf H1) as F1. pose proof (find_board_unique w b' Hwf H2) as F2.
  rewrite E in F2. congruence.
Qed.
Lemma same_id_train w t t' : wfb w = true -> In t (w_trains w) -> In t' (w_trains w) -> tr_id t' = tr_id t -> t' = t.
Proof.
  intros Hwf H1 H2 E. pose proof (find_train_unique w t Hwf H1) as F1. pose proof (find_train_unique w t' Hwf H2) as F2.
  rewrite E in F2. congruence.
Qed.

Lemma board_accessory_range_bad (point : bool) w b m a : wfb w = true ->
  In b (w_boards w) -> In m (if point then b_pts b else b_sigs b) -> In a (ba_aspects m) ->
  127 < ba_num m \/ 127 < as_val a ->
  set_accessory point w (ba_id m) (as_id a) = Done 1 [] w.
Proof.
  intros Hwf Hb Hm Ha Hr. unfold set_accessory.
  rewrite (acc_search_board_unique point (w_boards w) b m (wfb_acc_nodup point w Hwf) Hb Hm).
  destruct (negb (b_conn b)); [reflexivity|]. destruct (127 <? ba_num m) eqn:En; [reflexivity|].
  rewrite (bacc_aspect_unique point w b m a Hwf Hb Hm Ha).
  apply N.ltb_ge in En. destruct Hr as [Hr|Hr]; [lia|]. apply N.ltb_lt in Hr. rewrite Hr. reflexivity.
Qed.

Lemma cmd_bad_range w : wfb w = true ->
  (forall (point : bool) b m a, In b (w_boards w) -> In m (if point then b_pts b else b_sigs b) -> In a (ba_aspects m) ->
     127 < ba_num m \/ 127 < as_val a ->
     cmd w (if point then SwitchPoint (ba_id m) (as_id a) else SetSignal (ba_id m) (as_id a)) = Done 1 [] w) /\
  (forall tr m st o, In tr (w_trains w) -> In m (tr_pers tr) -> 5 <= tp_bit m <= 7 ->
     cmd w (SetTrainPeripheral (tr_id tr) (tp_id m) st o) = Done 1 [] w) /\
  (forall b s, cs_state_ok s = false -> cmd w (SetTrackOutput b s) = Done 1 [] w) /\
  (forall b r, In b (w_boards w) -> (forall m, In m (b_revs b) -> rv_id m <> r) ->
     cmd w (RequestReverser r (b_id b)) = Done 1 [] w).
Proof.
  intros Hwf. split; [|split; [|split]].
  - intros point b m a Hb Hm Ha Hr. destruct point; cbn [cmd];
      [exact (board_accessory_range_bad true w b m a Hwf Hb Hm Ha Hr)|exact (board_accessory_range_bad false w b m a Hwf Hb Hm Ha Hr)].
  - intros tr m st o Htr Hm Hbit. apply cmd_bad; [exact Hwf|]. cbn [accepted].
    intros (_ & (tr' & m' & Ht' & Hid & Hm' & Hpid & Hok) & _).
    pose proof (same_id_train w tr tr' Hwf Htr Ht' Hid). subst tr'.
    pose proof (pers_id_inj w tr Hwf Htr m' m Hm' Hm Hpid). subst m'. lia.
  - intros b s. apply track_output_bad_state.
  - intros b r Hb Hno. apply cmd_bad; [exact Hwf|]. cbn [accepted].
    intros (bd & m & Hbd & Hid & _ & Hm & Hr).
    pose proof (same_id_board w b bd Hwf Hb Hbd Hid). subst bd. exact (Hno m Hm Hr).
Qed.
