(* Properties_C09.v — C09: high-level commands emit exactly the configured messages, or nothing (return 1).
   [cmd w c] is the executable model (HighLevel.v) of the setters of src/highlevel/bidib_highlevel_setter.c with the
   low-level senders and optimistic state updates they call; [w] holds the parsed configuration, the boards'
   connection state / node addresses and the tracked state; the result is [Done ret messages w'] or [Fault site]
   (a NULL dereference / out-of-bounds access of the C).  [wfb] is what the config parser establishes.
   State of /repo after the six C09 repairs (notes/C09-after-fix): no _refuted theorem, no excluded input class. *)
From Coq Require Import List NArith ZArith Bool.
From LB Require Import Tables HighLevel HighLevelProofs.
Import ListNotations.
Local Open Scope N_scope.

(* ---- speed-step encoding: complete enumeration of -126..126 x both remembered directions ---- *)
Theorem C09_speed : forall (s : Z) (prev_fwd : bool), (-126 <= s <= 126)%Z ->
  let fwd := if (s =? 0)%Z then prev_fwd else (0 <? s)%Z in
  let b := lib_to_dcc (byte (Z.abs_N s)) fwd in
  b = (if fwd then 128 else 0) + Z.abs_N s + (if (s =? 0)%Z then 0 else 1) /\
  b < 256 /\ dcc_to_lib b = s /\ (128 <=? b) = fwd.
Proof. exact speed_encoding. Qed.
Print Assumptions C09_speed.

(* every DCC speed byte decodes into -126..126; all but the two stop codes (0, 1) are the image of their decoding *)
Theorem C09_speed_back : forall b, b < 256 ->
  (-126 <= dcc_to_lib b <= 126)%Z /\
  (1 < N.land b 127 -> lib_to_dcc (byte (Z.abs_N (dcc_to_lib b))) (128 <=? b) = b) /\
  (N.land b 127 <= 1 -> dcc_to_lib b = 0%Z).
Proof. exact dcc_back. Qed.
Print Assumptions C09_speed_back.

(* ---- bad commands: whenever a command answers 1, nothing was submitted and nothing changed ---- *)
Theorem C09_bad_silent : forall w c m w', wfb w = true -> cmd w c = Done 1 m w' -> m = [] /\ w' = w.
Proof. exact cmd_ret1_silent. Qed.
Print Assumptions C09_bad_silent.

(* ... and a command is answered with 0 only if it is valid in the sense of the property text ([accepted]): configured
   equipment on a connected board of the right class, a defined aspect, and every value in range (speed -126..126 /
   -9..9, function state 0/1 on a bit MSG_CS_DRIVE can express, accessory number and aspect value <= 127, a member of
   t_bidib_cs_state, the reverser on the named board) *)
Theorem C09_ret0_valid : forall w c m w', cmd w c = Done 0 m w' -> accepted w c.
Proof. exact cmd_ret0_accepted. Qed.
Print Assumptions C09_ret0_valid.

(* direct form: an invalid command answers 1, submits nothing, changes nothing; spelled-out instances: speed out of
   range, a point id that no connected board configures, a disconnected output (C09_bad_instances); accessory number or
   aspect value > 127, function bit 5..7, non-member of t_bidib_cs_state, reverser not on the named board
   (C09_bad_range_instances); function state > 1 (C09_functions_bad_state) *)
Theorem C09_bad : forall w c, wfb w = true -> ~ accepted w c -> cmd w c = Done 1 [] w.
Proof. exact cmd_bad. Qed.
Print Assumptions C09_bad.

Theorem C09_bad_instances : forall w, wfb w = true ->
  (forall t s o, (s < -126 \/ 126 < s)%Z -> cmd w (SetTrainSpeed t s o) = Done 1 [] w) /\
  (forall p a, (forall b, In b (w_boards w) -> b_conn b = true ->
                          (forall m, In m (b_pts b) -> ba_id m <> p) /\ (forall m, In m (b_dpts b) -> dc_id m <> p)) ->
               cmd w (SwitchPoint p a) = Done 1 [] w) /\
  (forall t p s o, (forall b, In b (w_boards w) -> b_id b = o -> b_conn b = false) ->
                   cmd w (SetTrainPeripheral t p s o) = Done 1 [] w).
Proof. exact cmd_bad_examples. Qed.
Print Assumptions C09_bad_instances.

Theorem C09_bad_range_instances : forall w, wfb w = true ->
  (forall (point : bool) b m a, In b (w_boards w) -> In m (if point then b_pts b else b_sigs b) -> In a (ba_aspects m) ->
     127 < ba_num m \/ 127 < as_val a ->
     cmd w (if point then SwitchPoint (ba_id m) (as_id a) else SetSignal (ba_id m) (as_id a)) = Done 1 [] w) /\
  (forall tr m st o, In tr (w_trains w) -> In m (tr_pers tr) -> 5 <= tp_bit m <= 7 ->
     cmd w (SetTrainPeripheral (tr_id tr) (tp_id m) st o) = Done 1 [] w) /\
  (forall b s, cs_state_ok s = false -> cmd w (SetTrackOutput b s) = Done 1 [] w) /\
  (forall b r, In b (w_boards w) -> (forall m, In m (b_revs b) -> rv_id m <> r) ->
     cmd w (RequestReverser r (b_id b)) = Done 1 [] w).
Proof. exact cmd_bad_range. Qed.
Print Assumptions C09_bad_range_instances.

(* ---- good commands: exactly the configured message, to the owning board's current address ---- *)
Theorem C09_ok_board_accessory : forall (point : bool) w b m a, wfb w = true ->
  In b (w_boards w) -> In m (if point then b_pts b else b_sigs b) -> In a (ba_aspects m) -> b_conn b = true ->
  ba_num m <= 127 -> as_val a <= 127 ->
  cmd w (if point then SwitchPoint (ba_id m) (as_id a) else SetSignal (ba_id m) (as_id a)) =
  Done 0 [(b_addr b, MSG_ACCESSORY_SET, [ba_num m; as_val a])] w.
Proof. exact board_accessory_cmd_ok. Qed.
Print Assumptions C09_ok_board_accessory.

Theorem C09_ok_peripheral : forall w b m a, wfb w = true ->
  In b (w_boards w) -> In m (b_pers b) -> In a (pe_aspects m) -> b_conn b = true ->
  cmd w (SetPeripheral (pe_id m) (as_id a)) = Done 0 [(b_addr b, MSG_LC_OUTPUT, [pe_port0 m; pe_port1 m; as_val a])] w.
Proof. exact peripheral_ok. Qed.
Print Assumptions C09_ok_peripheral.

Theorem C09_ok_booster : forall w b on, wfb w = true -> In b (w_boards w) -> b_conn b = true -> is_booster b = true ->
  cmd w (SetBooster (b_id b) on) = Done 0 [(b_addr b, if on then MSG_BOOST_ON else MSG_BOOST_OFF, [1])] w.
Proof. exact booster_ok. Qed.
Print Assumptions C09_ok_booster.

Theorem C09_ok_track_output : forall w b s, wfb w = true -> In b (w_boards w) -> b_conn b = true ->
  is_track_output b = true -> cs_state_ok s = true ->
  cmd w (SetTrackOutput (b_id b) s) = Done 0 [(b_addr b, MSG_CS_SET_STATE, [s])] w.
Proof. exact track_output_ok. Qed.
Print Assumptions C09_ok_track_output.

Theorem C09_ok_track_output_all : forall w s, cs_state_ok s = true ->
  cmd w (SetTrackOutputAll s) =
  Done 0 (map (fun b => (b_addr b, MSG_CS_SET_STATE, [s])) (filter (fun b => is_track_output b && b_conn b) (w_boards w))) w.
Proof. exact track_output_all_ok. Qed.
Print Assumptions C09_ok_track_output_all.

(* DCC accessory (points-dcc / signals-dcc): one MSG_CS_ACCESSORY per configured port value, in order, with the
   configured DCC address; exactly the switched accessory's tracked state changes: aspect id, and value / coil
   from the last port message (upd_d); everything else in the world is untouched *)
Theorem C09_ok_dcc_accessory : forall (point : bool) w b m a, wfb w = true -> conn_addrs_distinct (w_boards w) = true ->
  In b (w_boards w) -> In m (if point then b_dpts b else b_dsigs b) -> b_conn b = true -> In a (dc_aspects m) ->
  cmd w (if point then SwitchPoint (dc_id m) (da_id a) else SetSignal (dc_id m) (da_id a)) =
  Done 0 (map (fun pv => (b_addr b, MSG_CS_ACCESSORY, [dc_addrl m; dc_addrh m; dcc_port_data (dc_ext m) pv; 0])) (da_ports a))
       (set_dacc_st point w (upd_first (fun s => ds_id s =? dc_id m)
                                       (fun s => set_sid (da_id a) (ports_upd (dc_ext m) (da_ports a) s)) (get_dacc_st point w))).
Proof. exact dcc_accessory_cmd_ok. Qed.
Print Assumptions C09_ok_dcc_accessory.

Theorem C09_dcc_data_byte : forall ext p v, ext <= 1 -> v <= 1 -> dcc_port_data ext (p, v) = p mod 32 + 32 * v + 128 * ext.
Proof. exact dcc_port_data_spec. Qed.
Print Assumptions C09_dcc_data_byte.

Theorem C09_dcc_final_state : forall ext a ports pv s,
  set_sid a (ports_upd ext (ports ++ [pv]) s) =
  mk_dst (ds_id s) (Some a) (N.land (dcc_port_data ext pv) 31) (N.testbit (dcc_port_data ext pv) 5)
         (negb (N.testbit (dcc_port_data ext pv) 6)) 0 0 (ds_ack s).
Proof. exact dcc_accessory_final. Qed.
Print Assumptions C09_dcc_final_state.

(* reverser state request to the owning board *)
Theorem C09_ok_reverser : forall w b m, wfb w = true -> In b (w_boards w) -> In m (b_revs b) -> b_conn b = true ->
  (length (rv_cv m) <= 120)%nat ->
  cmd w (RequestReverser (rv_id m) (b_id b)) =
  Done 0 [(b_addr b, MSG_VENDOR_GET, N.of_nat (length (rv_cv m)) :: rv_cv m)]
       (set_revs w (upd_first (fun s => rs_id s =? rv_id m) (fun s => mk_rst (rs_id s) 2) (w_revs w))).
Proof. exact reverser_ok. Qed.
Print Assumptions C09_ok_reverser.

(* ---- train speed: the configured DCC address and format, the encoded speed byte, to the track output's current
   address; the commanded train's tracked speed/direction is updated, every other train and all other state kept.
   Holds for every configured DCC address (the by-address lookup prefers the configured address itself). ---- *)
Theorem C09_speed_cmd : forall w tr b s, wfb w = true ->
  In tr (w_trains w) -> In b (w_boards w) -> b_conn b = true -> is_track_output b = true ->
  (-126 <= s <= 126)%Z ->
  exists ts w', find_tst w (tr_id tr) = Some ts /\
    let fwd := if (s =? 0)%Z then ts_fwd ts else (0 <? s)%Z in
    let enc := (if fwd then 128 else 0) + Z.abs_N s + (if (s =? 0)%Z then 0 else 1) in
    cmd w (SetTrainSpeed (tr_id tr) s (b_id b)) =
      Done 0 [(b_addr b, MSG_CS_DRIVE, [tr_addrl tr; tr_addrh tr; steps_fmt (tr_steps tr); 1; enc; 0; 0; 0; 0])] w' /\
    find_tst w' (tr_id tr) = Some (mk_tst (tr_id tr) s fwd 4 (ts_pers ts)) /\
    (forall t', t' <> tr_id tr -> find_tst w' t' = find_tst w t') /\
    w_boards w' = w_boards w /\ w_trains w' = w_trains w /\ w_dpts w' = w_dpts w /\ w_dsigs w' = w_dsigs w /\ w_revs w' = w_revs w.
Proof. exact speed_cmd_ok. Qed.
Print Assumptions C09_speed_cmd.

Theorem C09_calibrated_speed : forall w tr cal s o, wfb w = true -> In tr (w_trains w) -> tr_calib tr = Some cal -> (-9 <= s <= 9)%Z ->
  cmd w (SetCalibratedSpeed (tr_id tr) s o) = cmd w (SetTrainSpeed (tr_id tr) (calib_value cal s) o) /\
  (-126 <= calib_value cal s <= 126)%Z.
Proof. exact calibrated_cmd. Qed.
Print Assumptions C09_calibrated_speed.

Theorem C09_emergency_stop : forall w tr b, wfb w = true ->
  In tr (w_trains w) -> In b (w_boards w) -> b_conn b = true -> is_track_output b = true ->
  exists ts w', find_tst w (tr_id tr) = Some ts /\
    cmd w (EmergencyStop (tr_id tr) (b_id b)) =
      Done 0 [(b_addr b, MSG_CS_DRIVE, [tr_addrl tr; tr_addrh tr; steps_fmt (tr_steps tr); 1; 129; 0; 0; 0; 0])] w' /\
    find_tst w' (tr_id tr) = Some (mk_tst (tr_id tr) 0%Z true 4 (ts_pers ts)) /\
    (forall t', t' <> tr_id tr -> find_tst w' t' = find_tst w t').
Proof. exact estop_cmd_ok. Qed.
Print Assumptions C09_emergency_stop.

(* ---- function bits: state 0/1 on a configured function whose bit is 0..4 or 8..31: one MSG_CS_DRIVE with the
   group's active flag, speed field 0, the group's function byte [fbyte] in its place and 0 elsewhere; bit k of
   fbyte is on iff k is the requested bit and state = 1, or another configured function of the group sits at k and
   its tracked value is 1 (fn_spec_bit); in the tracked state exactly the requested function changes.
   State > 1: C09_functions_bad_state; bits 5..7: C09_bad_range_instances (both rejected commands). ---- *)
Theorem C09_functions : forall w tr b m st, wfb w = true ->
  In tr (w_trains w) -> In b (w_boards w) -> b_conn b = true -> is_track_output b = true ->
  In m (tr_pers tr) -> st <= 1 -> tp_bit m < 5 \/ 8 <= tp_bit m ->
  exists ts w' act lo hi idx fbyte,
    find_tst w (tr_id tr) = Some ts /\ tp_group (tp_bit m) = (act, lo, hi, idx) /\
    cmd w (SetTrainPeripheral (tr_id tr) (tp_id m) st (b_id b)) =
      Done 0 [(b_addr b, MSG_CS_DRIVE,
               [tr_addrl tr; tr_addrh tr; steps_fmt (tr_steps tr); act; 0] ++ set_nth idx fbyte [0; 0; 0; 0])] w' /\
    (forall k, N.testbit fbyte k = fn_spec_bit tr ts m st lo hi k) /\
    find_tst w' (tr_id tr) =
      Some (mk_tst (tr_id tr) (ts_speed ts) (ts_fwd ts) 4
                   (upd_first (fun q => tq_id q =? tp_id m) (fun q => mk_tpst (tq_id q) st) (ts_pers ts))) /\
    (forall t', t' <> tr_id tr -> find_tst w' t' = find_tst w t') /\
    w_boards w' = w_boards w /\ w_trains w' = w_trains w /\ w_dpts w' = w_dpts w /\ w_dsigs w' = w_dsigs w /\ w_revs w' = w_revs w.
Proof. exact functions_ok. Qed.
Print Assumptions C09_functions.

(* ---- totality and any order: from a well-formed world no command faults (no NULL dereference / out-of-bounds in
   the modelled code), the return code is 0 or 1, well-formedness is preserved by commands, node-new, node-lost and
   feedback, so all theorems above apply at every step of every history ---- *)
Theorem C09_total : forall w c, wfb w = true -> exists r m w', cmd w c = Done r m w' /\ (r = 0 \/ r = 1).
Proof. exact cmd_total. Qed.
Print Assumptions C09_total.

Theorem C09_preserves_wf : forall w c r m w', wfb w = true -> cmd w c = Done r m w' -> wfb w' = true.
Proof. exact cmd_preserves_wf. Qed.
Print Assumptions C09_preserves_wf.

Theorem C09_any_order : forall es w, wfb w = true -> exists os w', run w es = Some (os, w') /\ wfb w' = true.
Proof. exact run_wf. Qed.
Print Assumptions C09_any_order.

(* ---- function bits: a state other than 0/1 is a rejected command in every world ---- *)
Theorem C09_functions_bad_state : forall w t p st o, 1 < st -> cmd w (SetTrainPeripheral t p st o) = Done 1 [] w.
Proof. exact function_bad_state. Qed.
Print Assumptions C09_functions_bad_state.

(* ---- the inputs that were the witnesses of the six repaired defects: now rejected commands, and the command for the
   train configured at 0x4123 updates that train while the train at 0x0123 is untouched ---- *)
Theorem C09_repaired_witnesses :
  cmd wit_world (SwitchPoint 2 1) = Done 1 [] wit_world /\ cmd wit_world (SwitchPoint 3 1) = Done 1 [] wit_world /\
  cmd wit_world (SetTrainPeripheral 7 8 2 1) = Done 1 [] wit_world /\ cmd wit_world (SetTrainPeripheral 7 10 1 1) = Done 1 [] wit_world /\
  cmd wit_world (SetTrackOutput 1 5) = Done 1 [] wit_world /\ cmd wit_world (RequestReverser 5 6) = Done 1 [] wit_world /\
  exists w', cmd wit_world (SetTrainSpeed 12 7 1) = Done 0 [((0, 0, 0), MSG_CS_DRIVE, [35; 65; 2; 1; 136; 0; 0; 0; 0])] w' /\
             tracked_speed w' 12 = Some (7%Z, true) /\ tracked_speed w' 7 = Some (0%Z, true).
Proof. exact wit_repaired. Qed.
Print Assumptions C09_repaired_witnesses.

Example C09_nonvacuous :
  wfb wit_world = true /\ conn_addrs_distinct (w_boards wit_world) = true /\
  exists w1 w2 w3,
    cmd wit_world (SetTrainSpeed 7 (-5) 1) = Done 0 [((0, 0, 0), MSG_CS_DRIVE, [35; 1; 3; 1; 6; 0; 0; 0; 0])] w1 /\
    cmd w1 (SetTrainSpeed 7 0 1) = Done 0 [((0, 0, 0), MSG_CS_DRIVE, [35; 1; 3; 1; 0; 0; 0; 0; 0])] w2 /\
    tracked_speed w2 7 = Some (0%Z, false) /\
    cmd w2 (SwitchPoint 4 1) = Done 0 [((0, 0, 0), MSG_CS_ACCESSORY, [34; 17; 32; 0]); ((0, 0, 0), MSG_CS_ACCESSORY, [34; 17; 1; 0])] w3 /\
    option_map ds_sid (find (fun s => ds_id s =? 4) (w_dpts w3)) = Some (Some 1) /\
    cmd wit_world (SwitchPoint 9999 1) = Done 1 [] wit_world.
Proof. split; [exact (proj1 wit_world_wf)|]. split; [exact (proj2 wit_world_wf)|]. eexists; eexists; eexists. vm_compute. repeat split; reflexivity. Qed.
