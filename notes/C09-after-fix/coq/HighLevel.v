(* HighLevel.v — executable model of the high-level setters of
   src/highlevel/bidib_highlevel_setter.c together with the parts they call:
   bidib_send_accessory_set / _lc_output / _boost_on/_off / _cs_set_state / _vendor_get /
   _cs_drive_intern / _cs_accessory_intern (src/lowlevel), the optimistic state update
   bidib_state_cs_drive / bidib_state_cs_accessory (src/state/bidib_state_setter.c), the speed
   conversions of src/state/bidib_state.c, the by-id / by-address / by-bit lookups of
   src/state/bidib_state_getter.c, and bidib_state_node_new / bidib_state_node_lost.

   Identifiers (C strings compared with strcmp) are numbers; strcmp-equality is N-equality.
   The model is faithful: it reproduces what the code does also where that violates C09.
   NULL dereferences / out-of-bounds accesses of the C are the explicit result [Fault site].
   No proofs in this file. *)
From Coq Require Import List NArith ZArith Bool.
From LB Require Import Tables.
Import ListNotations.
Local Open Scope N_scope.

Definition addr3 := (N * N * N)%type.
Definition hmsg := (addr3 * N * list N)%type.       (* destination, message type, data bytes *)

(* ------------------------------------------------------------------ configuration *)
Record aspect := mk_aspect { as_id : N; as_val : N }.
Record bacc := mk_bacc { ba_id : N; ba_num : N; ba_aspects : list aspect }.
Record daspect := mk_daspect { da_id : N; da_ports : list (N * N) }.          (* (port, value) *)
Record dacc := mk_dacc { dc_id : N; dc_addrl : N; dc_addrh : N; dc_ext : N; dc_aspects : list daspect }.
Record periph := mk_periph { pe_id : N; pe_port0 : N; pe_port1 : N; pe_aspects : list aspect }.
Record reverser := mk_reverser { rv_id : N; rv_cv : list N }.                  (* cv: bytes of the string *)
Record board := mk_board {
  b_id : N; b_uid : list N; b_conn : bool; b_addr : addr3;
  b_pts : list bacc; b_dpts : list dacc; b_sigs : list bacc; b_dsigs : list dacc;
  b_pers : list periph; b_revs : list reverser }.
Record tperiph := mk_tperiph { tp_id : N; tp_bit : N }.
Record train := mk_train {
  tr_id : N; tr_addrl : N; tr_addrh : N; tr_steps : N;
  tr_calib : option (list N); tr_pers : list tperiph }.

(* ------------------------------------------------------------------ tracked (optimistic) state *)
Record tpst := mk_tpst { tq_id : N; tq_state : N }.
Record tst := mk_tst { ts_id : N; ts_speed : Z; ts_fwd : bool; ts_ack : N; ts_pers : list tpst }.
Record dst := mk_dst { ds_id : N; ds_sid : option N; ds_val : N; ds_coil : bool; ds_oct : bool;
                       ds_unit : N; ds_time : N; ds_ack : N }.
Record rst := mk_rst { rs_id : N; rs_val : N }.

Record world := mk_world {
  w_boards : list board; w_trains : list train;
  w_tst : list tst; w_dpts : list dst; w_dsigs : list dst; w_revs : list rst }.

Definition set_boards (w : world) (l : list board) : world :=
  mk_world l (w_trains w) (w_tst w) (w_dpts w) (w_dsigs w) (w_revs w).
Definition set_tst (w : world) (l : list tst) : world :=
  mk_world (w_boards w) (w_trains w) l (w_dpts w) (w_dsigs w) (w_revs w).
Definition set_dacc_st (point : bool) (w : world) (l : list dst) : world :=
  if point then mk_world (w_boards w) (w_trains w) (w_tst w) l (w_dsigs w) (w_revs w)
  else mk_world (w_boards w) (w_trains w) (w_tst w) (w_dpts w) l (w_revs w).
Definition get_dacc_st (point : bool) (w : world) : list dst := if point then w_dpts w else w_dsigs w.
Definition set_revs (w : world) (l : list rst) : world :=
  mk_world (w_boards w) (w_trains w) (w_tst w) (w_dpts w) (w_dsigs w) l.

Inductive res :=
| Fault (site : N)
| Done (ret : N) (msgs : list hmsg) (w' : world).

(* fault sites *)
Definition F_TRAIN_STATE_NULL : N := 1.   (* bidib_state_get_train_state_ref returned NULL and is dereferenced *)
Definition F_PSTATE_NULL : N := 2.        (* bidib_state_get_train_peripheral_state_by_bit returned NULL and is dereferenced *)
Definition F_CALIB_OOB : N := 3.          (* g_array_index(calibration, int, k) beyond the array *)
Definition F_FBITS_OOB : N := 4.          (* function_bits[bit / 8] with bit >= 32 *)

(* ------------------------------------------------------------------ generic helpers *)
Fixpoint upd_first {A} (p : A -> bool) (f : A -> A) (l : list A) : list A :=
  match l with
  | [] => []
  | x :: r => if p x then f x :: r else x :: upd_first p f r
  end.

Fixpoint nrange (lo : N) (n : nat) : list N :=
  match n with O => [] | S k => lo :: nrange (lo + 1) k end.

Definition byte (x : N) : N := x mod 256.

Definition find_board (w : world) (id : N) : option board := find (fun b => b_id b =? id) (w_boards w).
Definition find_train (w : world) (id : N) : option train := find (fun t => tr_id t =? id) (w_trains w).
Definition find_tst (w : world) (id : N) : option tst := find (fun s => ts_id s =? id) (w_tst w).
Definition find_aspect (l : list aspect) (id : N) : option aspect := find (fun a => as_id a =? id) l.
Definition find_daspect (l : list daspect) (id : N) : option daspect := find (fun a => da_id a =? id) l.
Definition b_class (b : board) : N := hd 0 (b_uid b).
Definition addr_eqb (a b : addr3) : bool :=
  let '(a1, a2, a3) := a in let '(b1, b2, b3) := b in (a1 =? b1) && (a2 =? b2) && (a3 =? b3).
Fixpoint list_eqb (a b : list N) : bool :=
  match a, b with
  | [], [] => true
  | x :: r, y :: s => (x =? y) && list_eqb r s
  | _, _ => false
  end.

(* bidib_state_get_board_ref_by_nodeaddr: first CONNECTED board with that address *)
Definition find_board_by_addr (w : world) (a : addr3) : option board :=
  find (fun b => b_conn b && addr_eqb (b_addr b) a) (w_boards w).

(* ------------------------------------------------------------------ speed conversions (bidib_state.c) *)
Definition lib_to_dcc (speed : N) (fwd : bool) : N :=
  byte (N.lor (if fwd then 128 else 0) speed + (if speed =? 0 then 0 else 1)).

Definition dcc_to_lib (b : N) : Z :=
  let s := N.land b 127 in
  if s <=? 1 then 0%Z
  else if N.testbit b 7 then Z.of_N (s - 1) else (- Z.of_N (s - 1))%Z.

Definition steps_fmt (steps : N) : N := if steps =? 28 then 2 else if steps =? 126 then 3 else 0.

(* ------------------------------------------------------------------ low-level senders used *)
Definition send_accessory_set (a : addr3) (anum asp : N) : list hmsg :=
  if 127 <? anum then [] else if 127 <? asp then [] else [(a, MSG_ACCESSORY_SET, [anum; asp])].
Definition send_lc_output (a : addr3) (p0 p1 stat : N) : list hmsg := [(a, MSG_LC_OUTPUT, [p0; p1; stat])].
Definition send_boost (a : addr3) (on : bool) : list hmsg :=
  [(a, if on then MSG_BOOST_ON else MSG_BOOST_OFF, [1])].
Definition cs_state_ok (s : N) : bool :=
  negb ((4 <? s) && negb (s =? 8) && negb (s =? 9) && negb (s =? 13) && negb (s =? 255)).
Definition send_cs_set_state (a : addr3) (s : N) : list hmsg :=
  if cs_state_ok s then [(a, MSG_CS_SET_STATE, [s])] else [].
Definition send_vendor_get (a : addr3) (name : list N) : list hmsg :=
  let n := byte (N.of_nat (length name)) in
  if 120 <? n then [] else [(a, MSG_VENDOR_GET, n :: firstn (N.to_nat n) name)].

(* ------------------------------------------------------------------ bidib_state_cs_drive *)
Record drive := mk_drive { dv_addrl : N; dv_addrh : N; dv_fmt : N; dv_active : N; dv_speed : N;
                           dv_f1 : N; dv_f2 : N; dv_f3 : N; dv_f4 : N }.

Definition fbit (fb : list N) (i : N) : N :=
  N.land (N.shiftr (nth (N.to_nat (i / 8)) fb 0) (i mod 8)) 1.

(* one iteration of the per-group loops: bidib_state_get_train_peripheral_state_by_bit + assignment *)
Definition drive_bit (w : world) (tsid : N) (fb : list N) (ps : list tpst) (i : N) : list tpst :=
  match find_train w tsid with
  | None => ps
  | Some tr =>
    match find (fun m => tp_bit m =? i) (tr_pers tr) with
    | None => ps
    | Some m => upd_first (fun q => tq_id q =? tp_id m) (fun q => mk_tpst (tq_id q) (fbit fb i)) ps
    end
  end.

Definition drive_group (w : world) (tsid : N) (fb : list N) (lo : N) (n : nat) (ps : list tpst) : list tpst :=
  fold_left (drive_bit w tsid fb) (nrange lo n) ps.

Definition drive_update (w : world) (p : drive) (ts : tst) : tst :=
  let fb := [dv_f1 p; dv_f2 p; dv_f3 p; dv_f4 p] in
  if dv_active p =? 0 then
    mk_tst (ts_id ts) 0%Z true (ts_ack ts) (map (fun q => mk_tpst (tq_id q) 0) (ts_pers ts))
  else
    let act0 := N.testbit (dv_active p) 0 in
    let g := fun (k lo : N) (n : nat) (ps : list tpst) =>
               if N.testbit (dv_active p) k then drive_group w (ts_id ts) fb lo n ps else ps in
    mk_tst (ts_id ts)
           (if act0 then dcc_to_lib (dv_speed p) else ts_speed ts)
           (if act0 then 128 <=? dv_speed p else ts_fwd ts)
           4
           (g 5 24 8%nat (g 4 16 8%nat (g 3 12 4%nat (g 2 8 4%nat (g 1 0 5%nat (ts_pers ts)))))).

(* bidib_state_get_train_state_ref_by_dccaddr: first the train whose configured address is the queried one;
   otherwise the first train whose address agrees with it when the orientation bits (0xC0 of addrh) are ignored
   on both sides; then the first train state with that train's id *)
Definition find_train_by_dcc (w : world) (addrl addrh : N) : option train :=
  match find (fun t => (tr_addrl t =? addrl) && (tr_addrh t =? addrh)) (w_trains w) with
  | Some t => Some t
  | None => find (fun t => (tr_addrl t =? addrl) && (N.land (tr_addrh t) 63 =? N.land addrh 63)) (w_trains w)
  end.

Definition state_cs_drive (w : world) (p : drive) : world :=
  match find_train_by_dcc w (dv_addrl p) (dv_addrh p) with
  | None => w
  | Some tr => set_tst w (upd_first (fun s => ts_id s =? tr_id tr) (drive_update w p) (w_tst w))
  end.

Definition drive_data (p : drive) : list N :=
  [dv_addrl p; dv_addrh p; dv_fmt p; dv_active p; dv_speed p; dv_f1 p; dv_f2 p; dv_f3 p; dv_f4 p].

(* bidib_send_cs_drive_intern *)
Definition send_cs_drive (w : world) (a : addr3) (p : drive) : list hmsg * world :=
  if (dv_fmt p =? 1) || (3 <? dv_fmt p) then ([], w)
  else if 63 <? dv_active p then ([], w)
  else if 31 <? dv_f1 p then ([], w)
  else ([(a, MSG_CS_DRIVE, drive_data p)], state_cs_drive w p).

(* ------------------------------------------------------------------ bidib_state_cs_accessory *)
Definition dacc_addr_eqb (addrl addrh : N) (m : dacc) : bool := (dc_addrh m =? addrh) && (dc_addrl m =? addrl).

Definition state_cs_accessory (w : world) (a : addr3) (addrl addrh data time : N) : world :=
  match find_board_by_addr w a with
  | None => w
  | Some b =>
    let hit := match find (dacc_addr_eqb addrl addrh) (b_dpts b) with
               | Some m => Some (true, m)
               | None => match find (dacc_addr_eqb addrl addrh) (b_dsigs b) with
                         | Some m => Some (false, m)
                         | None => None
                         end
               end in
    match hit with
    | None => w
    | Some (point, m) =>
      set_dacc_st point w
        (upd_first (fun s => ds_id s =? dc_id m)
                   (fun s => mk_dst (ds_id s) None (N.land data 31) (N.testbit data 5) (negb (N.testbit data 6))
                                    (if N.testbit time 7 then 1 else 0) (N.land time 127) (ds_ack s))
                   (get_dacc_st point w))
    end
  end.

(* bidib_send_cs_accessory_intern *)
Definition send_cs_accessory (w : world) (a : addr3) (addrl addrh data time : N) : list hmsg * world :=
  ([(a, MSG_CS_ACCESSORY, [addrl; addrh; data; time])], state_cs_accessory w a addrl addrh data time).

(* ------------------------------------------------------------------ bidib_switch_point / bidib_set_signal *)
Fixpoint acc_search (point : bool) (bs : list board) (id : N) : option (board * (bacc + dacc)) :=
  match bs with
  | [] => None
  | b :: r =>
    match find (fun m => ba_id m =? id) (if point then b_pts b else b_sigs b) with
    | Some m => Some (b, inl m)
    | None =>
      match find (fun m => dc_id m =? id) (if point then b_dpts b else b_dsigs b) with
      | Some m => Some (b, inr m)
      | None => acc_search point r id
      end
    end
  end.

Definition dcc_port_data (ext : N) (pv : N * N) : N :=
  N.lor (N.lor (N.land (fst pv) 31) (byte (N.shiftl (snd pv) 5))) (byte (N.shiftl ext 7)).

Definition dcc_ports_step (a : addr3) (m : dacc) (acc : list hmsg * world) (pv : N * N) : list hmsg * world :=
  let '(ms, w1) := send_cs_accessory (snd acc) a (dc_addrl m) (dc_addrh m) (dcc_port_data (dc_ext m) pv) 0 in
  (fst acc ++ ms, w1).

Definition set_accessory (point : bool) (w : world) (id asp : N) : res :=
  match acc_search point (w_boards w) id with
  | None => Done 1 [] w
  | Some (b, inl m) =>
    if negb (b_conn b) then Done 1 [] w
    else if 127 <? ba_num m then Done 1 [] w          (* number outside the range of MSG_ACCESSORY_SET *)
    else match find_aspect (ba_aspects m) asp with
         | None => Done 1 [] w
         | Some a => if 127 <? as_val a then Done 1 [] w       (* aspect value that cannot be set *)
                     else Done 0 (send_accessory_set (b_addr b) (ba_num m) (as_val a)) w
         end
  | Some (b, inr m) =>
    if negb (b_conn b) then Done 1 [] w
    else match find_daspect (dc_aspects m) asp with
         | None => Done 1 [] w
         | Some a =>
           let '(ms, w1) := fold_left (dcc_ports_step (b_addr b) m) (da_ports a) ([], w) in
           (* bidib_state_get_dcc_accessory_state_ref(id, point) after the loop *)
           if existsb (fun s => ds_id s =? id) (get_dacc_st point w1) then
             Done 0 ms (set_dacc_st point w1
                          (upd_first (fun s => ds_id s =? id)
                                     (fun s => mk_dst (ds_id s) (Some (da_id a)) (ds_val s) (ds_coil s) (ds_oct s)
                                                      (ds_unit s) (ds_time s) (ds_ack s))
                                     (get_dacc_st point w1)))
           else Done 1 ms w1
         end
  end.

(* ------------------------------------------------------------------ bidib_set_peripheral *)
Fixpoint per_search (bs : list board) (id : N) : option (board * periph) :=
  match bs with
  | [] => None
  | b :: r => match find (fun m => pe_id m =? id) (b_pers b) with
              | Some m => Some (b, m)
              | None => per_search r id
              end
  end.

Definition set_peripheral (w : world) (id asp : N) : res :=
  match per_search (w_boards w) id with
  | None => Done 1 [] w
  | Some (b, m) =>
    if negb (b_conn b) then Done 1 [] w
    else match find_aspect (pe_aspects m) asp with
         | None => Done 1 [] w
         | Some a => Done 0 (send_lc_output (b_addr b) (pe_port0 m) (pe_port1 m) (as_val a)) w
         end
  end.

(* ------------------------------------------------------------------ train speed *)
Definition is_track_output (b : board) : bool := N.testbit (b_class b) 4.
Definition is_booster (b : board) : bool := N.testbit (b_class b) 1.

Definition set_train_speed (w : world) (t : N) (speed : Z) (out : N) : res :=
  if ((speed <? -126)%Z || (126 <? speed)%Z)%bool then Done 1 [] w
  else match find_train w t with
       | None => Done 1 [] w
       | Some tr =>
         match find_board w out with
         | None => Done 1 [] w
         | Some b =>
           if negb (b_conn b) then Done 1 [] w
           else if negb (is_track_output b) then Done 1 [] w
           else
             let fwd_r := if (speed =? 0)%Z
                          then match find_tst w t with
                               | None => None                  (* tmp_train_state->set_is_forwards on NULL *)
                               | Some ts => Some (ts_fwd ts)
                               end
                          else Some (0 <? speed)%Z in
             match fwd_r with
             | None => Fault F_TRAIN_STATE_NULL
             | Some fwd =>
               let p := mk_drive (tr_addrl tr) (tr_addrh tr) (steps_fmt (tr_steps tr)) 1
                                 (lib_to_dcc (byte (Z.abs_N speed)) fwd) 0 0 0 0 in
               let '(ms, w1) := send_cs_drive w (b_addr b) p in Done 0 ms w1
             end
         end
       end.

Definition set_calibrated_train_speed (w : world) (t : N) (speed : Z) (out : N) : res :=
  if ((speed <? -9)%Z || (9 <? speed)%Z)%bool then Done 1 [] w
  else match find_train w t with
       | None => Done 1 [] w
       | Some tr =>
         match tr_calib tr with
         | None => Done 1 [] w
         | Some cal =>
           if (speed =? 0)%Z then set_train_speed w t 0 out
           else match nth_error cal (Nat.pred (Z.abs_nat speed)) with
                | None => Fault F_CALIB_OOB
                | Some v => set_train_speed w t (if (speed <? 0)%Z then - Z.of_N v else Z.of_N v)%Z out
                end
         end
       end.

Definition emergency_stop_train (w : world) (t out : N) : res :=
  match find_train w t with
  | None => Done 1 [] w
  | Some tr =>
    match find_board w out with
    | None => Done 1 [] w
    | Some b =>
      if negb (b_conn b) then Done 1 [] w
      else if negb (is_track_output b) then Done 1 [] w
      else let p := mk_drive (tr_addrl tr) (tr_addrh tr) (steps_fmt (tr_steps tr)) 1 129 0 0 0 0 in
           let '(ms, w1) := send_cs_drive w (b_addr b) p in Done 0 ms w1
    end
  end.

(* ------------------------------------------------------------------ train peripherals *)
(* bidib_state_get_train_peripheral_state_by_bit *)
Definition pstate_by_bit (w : world) (ts : tst) (bit : N) : option tpst :=
  match find_train w (ts_id ts) with
  | None => None
  | Some tr =>
    match find (fun m => tp_bit m =? bit) (tr_pers tr) with
    | None => None
    | Some m => find (fun q => tq_id q =? tp_id m) (ts_pers ts)
    end
  end.

(* bidib_get_current_train_peripheral_bits; inl = fault site *)
Definition cur_bits_step (w : world) (ots : option tst) (lo hi : N) (acc : N + N) (m : tperiph) : N + N :=
  match acc with
  | inl f => inl f
  | inr bits =>
    if (lo <=? tp_bit m) && (tp_bit m <=? hi) then
      match ots with
      | None => inl F_TRAIN_STATE_NULL
      | Some ts =>
        match pstate_by_bit w ts (tp_bit m) with
        | None => inl F_PSTATE_NULL
        | Some q => inr (N.lor bits (byte (N.shiftl (tq_state q) (tp_bit m mod 8))))
        end
      end
    else inr bits
  end.

Definition cur_bits (w : world) (tr : train) (lo hi : N) : N + N :=
  fold_left (cur_bits_step w (find_tst w (tr_id tr)) lo hi) (tr_pers tr) (inr 0).

Definition set_nth (k : nat) (v : N) (l : list N) : list N :=
  firstn k l ++ v :: skipn (S k) l.

(* which function group a bit belongs to in bidib_set_train_peripheral: (active flag, first bit, last bit read
   back, index of the function byte the read-back bits are stored in) *)
Definition tp_group (bit : N) : N * N * N * nat :=
  if bit <? 5 then (2, 0, 4, 0%nat)
  else if bit <? 12 then (4, 8, 11, 1%nat)
  else if bit <? 16 then (8, 12, 15, 1%nat)
  else if bit <? 24 then (16, 16, 23, 2%nat)
  else (32, 24, 31, 3%nat).

Definition set_train_peripheral (w : world) (t per state out : N) : res :=
  if 1 <? state then Done 1 [] w else      (* state must be 0 or 1 (repo commit fafecdd) *)
  match find_train w t with
  | None => Done 1 [] w
  | Some tr =>
    match find_board w out with
    | None => Done 1 [] w
    | Some b =>
      if negb (b_conn b) then Done 1 [] w
      else if negb (is_track_output b) then Done 1 [] w
      else
        match find (fun m => tp_id m =? per) (tr_pers tr) with
        | None => Done 1 [] w
        | Some m =>
          let bit := tp_bit m in
          if (5 <=? bit) && (bit <=? 7) then Done 1 [] w      (* no function at bits 5..7 of MSG_CS_DRIVE *)
          else
          let '(act, lo, hi, idx) := tp_group bit in
          match cur_bits w tr lo hi with
          | inl f => Fault f
          | inr cb =>
            if 32 <=? bit then Fault F_FBITS_OOB
            else
              let fb0 := set_nth idx cb [0; 0; 0; 0] in
              let k := N.to_nat (bit / 8) in
              let cleared := N.clearbit (nth k fb0 0) (bit mod 8) in
              let fb := set_nth k (N.lor cleared (byte (N.shiftl state (bit mod 8)))) fb0 in
              let p := mk_drive (tr_addrl tr) (tr_addrh tr) (steps_fmt (tr_steps tr)) act 0
                                (nth 0 fb 0) (nth 1 fb 0) (nth 2 fb 0) (nth 3 fb 0) in
              let '(ms, w1) := send_cs_drive w (b_addr b) p in Done 0 ms w1
          end
        end
    end
  end.

(* ------------------------------------------------------------------ booster / track output / reverser *)
Definition set_booster_power_state (w : world) (id : N) (on : bool) : res :=
  match find_board w id with
  | None => Done 1 [] w
  | Some b => if negb (b_conn b) then Done 1 [] w
              else if negb (is_booster b) then Done 1 [] w
              else Done 0 (send_boost (b_addr b) on) w
  end.

Definition set_track_output_state (w : world) (id s : N) : res :=
  if negb (cs_state_ok s) then Done 1 [] w else      (* no member of t_bidib_cs_state *)
  match find_board w id with
  | None => Done 1 [] w
  | Some b => if negb (b_conn b) then Done 1 [] w
              else if negb (is_track_output b) then Done 1 [] w
              else Done 0 (send_cs_set_state (b_addr b) s) w
  end.

Definition set_track_output_state_all (w : world) (s : N) : res :=
  Done 0 (flat_map (fun b => if is_track_output b && b_conn b then send_cs_set_state (b_addr b) s else [])
                   (w_boards w)) w.

Fixpoint rev_search (bs : list board) (id : N) : option reverser :=
  match bs with
  | [] => None
  | b :: r => match find (fun m => rv_id m =? id) (b_revs b) with
              | Some m => Some m
              | None => rev_search r id
              end
  end.

(* &g_array_index(board_ref->reversers, ..., i) == mapping_ref for some i: the first board with id [bid] is the
   first board that has a reverser [rev] (mapping_ref points into that board's array) *)
Fixpoint rev_owned (bs : list board) (bid rev : N) : bool :=
  match bs with
  | [] => false
  | b :: r =>
    let has := existsb (fun m => rv_id m =? rev) (b_revs b) in
    if b_id b =? bid then has else if has then false else rev_owned r bid rev
  end.

Definition request_reverser_state (w : world) (rev bid : N) : res :=
  match find_board w bid with
  | None => Done 1 [] w
  | Some b =>
    if negb (b_conn b) then Done 1 [] w
    else match rev_search (w_boards w) rev with
         | None => Done 1 [] w
         | Some m =>
           if negb (existsb (fun s => rs_id s =? rev) (w_revs w)) then Done 1 [] w
           else if negb (rev_owned (w_boards w) bid rev) then Done 1 [] w
           else
             Done 0 (send_vendor_get (b_addr b) (rv_cv m))
                  (set_revs w (upd_first (fun s => rs_id s =? rev) (fun s => mk_rst (rs_id s) 2) (w_revs w)))
         end
  end.

(* ------------------------------------------------------------------ node new / lost, feedback injection *)
Definition node_new_addr (parent : addr3) (local : N) : addr3 :=
  let '(t, s, ss) := parent in
  if t =? 0 then (local, s, ss) else if s =? 0 then (t, local, ss) else (t, s, local).

Definition board_set_conn (b : board) (c : bool) (a : addr3) : board :=
  mk_board (b_id b) (b_uid b) c a (b_pts b) (b_dpts b) (b_sigs b) (b_dsigs b) (b_pers b) (b_revs b).

Definition node_new (w : world) (parent : addr3) (local : N) (uid : list N) : world :=
  set_boards w (upd_first (fun b => list_eqb (b_uid b) uid)
                          (fun b => board_set_conn b true (node_new_addr parent local)) (w_boards w)).

(* bidib_state_is_subnode *)
Definition is_subnode (node sub : addr3) : bool :=
  let '(n1, n2, n3) := node in let '(s1, s2, s3) := sub in
  if negb (n1 =? s1) then n1 =? 0
  else if negb (n2 =? s2) then n2 =? 0
  else if negb (n3 =? s3) then n3 =? 0
  else false.

Definition node_lost (w : world) (uid : list N) : world :=
  match find (fun b => list_eqb (b_uid b) uid) (w_boards w) with
  | None => w
  | Some b0 =>
    let bs1 := upd_first (fun b => list_eqb (b_uid b) uid) (fun b => board_set_conn b false (b_addr b)) (w_boards w) in
    if N.testbit (b_class b0) 7 then
      set_boards w (map (fun b => if is_subnode (b_addr b0) (b_addr b) then board_set_conn b false (b_addr b) else b) bs1)
    else set_boards w bs1
  end.

(* what a MSG_VENDOR answer does to the reverser state (harness injects it directly) *)
Definition rev_feedback (w : world) (id v : N) : world :=
  set_revs w (upd_first (fun s => rs_id s =? id) (fun s => mk_rst (rs_id s) v) (w_revs w)).

(* ------------------------------------------------------------------ commands *)
Inductive command :=
| SwitchPoint (p a : N)
| SetSignal (s a : N)
| SetPeripheral (p a : N)
| SetTrainSpeed (t : N) (speed : Z) (out : N)
| SetCalibratedSpeed (t : N) (speed : Z) (out : N)
| EmergencyStop (t out : N)
| SetTrainPeripheral (t p state out : N)
| SetBooster (b : N) (on : bool)
| SetTrackOutput (b s : N)
| SetTrackOutputAll (s : N)
| RequestReverser (r b : N).

Definition cmd (w : world) (c : command) : res :=
  match c with
  | SwitchPoint p a => set_accessory true w p a
  | SetSignal s a => set_accessory false w s a
  | SetPeripheral p a => set_peripheral w p a
  | SetTrainSpeed t sp o => set_train_speed w t sp o
  | SetCalibratedSpeed t sp o => set_calibrated_train_speed w t sp o
  | EmergencyStop t o => emergency_stop_train w t o
  | SetTrainPeripheral t p s o => set_train_peripheral w t p s o
  | SetBooster b on => set_booster_power_state w b on
  | SetTrackOutput b s => set_track_output_state w b s
  | SetTrackOutputAll s => set_track_output_state_all w s
  | RequestReverser r b => request_reverser_state w r b
  end.

(* ------------------------------------------------------------------ initial tracked state of a parsed config *)
Definition init_tst (t : train) : tst :=
  mk_tst (tr_id t) 0%Z true 4 (map (fun m => mk_tpst (tp_id m) 0) (tr_pers t)).
Definition init_dst (m : dacc) : dst := mk_dst (dc_id m) None 0 true true 0 0 4.
Definition init_world (bs : list board) (ts : list train) : world :=
  mk_world bs ts (map init_tst ts)
           (flat_map (fun b => map init_dst (b_dpts b)) bs)
           (flat_map (fun b => map init_dst (b_dsigs b)) bs)
           (flat_map (fun b => map (fun r => mk_rst (rv_id r) 2) (b_revs b)) bs).

(* ------------------------------------------------------------------ well-formedness (what the config parser establishes
   and every command preserves); boolean so that the correspondence can evaluate it on every generated config *)
Fixpoint nodupb (l : list N) : bool :=
  match l with [] => true | x :: r => negb (existsb (N.eqb x) r) && nodupb r end.
Fixpoint nodupb2 (l : list (N * N)) : bool :=
  match l with
  | [] => true
  | x :: r => negb (existsb (fun y => (fst x =? fst y) && (snd x =? snd y)) r) && nodupb2 r
  end.

Definition wf_train (t : train) : bool :=
  nodupb (map tp_id (tr_pers t)) && nodupb (map tp_bit (tr_pers t)) &&
  forallb (fun m => tp_bit m <? 32) (tr_pers t) &&
  match tr_calib t with
  | None => true
  | Some c => Nat.eqb (length c) 9 && forallb (fun v => v <=? 126) c
  end.

Definition wf_tst (t : train) (s : tst) : bool :=
  (ts_id s =? tr_id t) && list_eqb (map tq_id (ts_pers s)) (map tp_id (tr_pers t)) &&
  forallb (fun q => tq_state q <=? 1) (ts_pers s).

Fixpoint forallb2 {A B} (f : A -> B -> bool) (a : list A) (b : list B) : bool :=
  match a, b with
  | [], [] => true
  | x :: r, y :: s => f x y && forallb2 f r s
  | _, _ => false
  end.

Definition wf_board (b : board) : bool :=
  forallb (fun m => nodupb (map as_id (ba_aspects m))) (b_pts b ++ b_sigs b) &&
  forallb (fun m => nodupb (map da_id (dc_aspects m))) (b_dpts b ++ b_dsigs b) &&
  forallb (fun m => nodupb (map as_id (pe_aspects m))) (b_pers b).

Definition all_dacc (w : world) : list dacc := flat_map (fun b => b_dpts b ++ b_dsigs b) (w_boards w).

Definition wfb (w : world) : bool :=
  nodupb (map b_id (w_boards w)) &&
  forallb wf_board (w_boards w) &&
  nodupb (map tr_id (w_trains w)) &&
  forallb wf_train (w_trains w) &&
  forallb2 wf_tst (w_trains w) (w_tst w) &&
  nodupb (flat_map (fun b => map ba_id (b_pts b) ++ map dc_id (b_dpts b)) (w_boards w)) &&
  nodupb (flat_map (fun b => map ba_id (b_sigs b) ++ map dc_id (b_dsigs b)) (w_boards w)) &&
  nodupb (flat_map (fun b => map pe_id (b_pers b)) (w_boards w)) &&
  nodupb (flat_map (fun b => map rv_id (b_revs b)) (w_boards w)) &&
  list_eqb (map ds_id (w_dpts w)) (flat_map (fun b => map dc_id (b_dpts b)) (w_boards w)) &&
  list_eqb (map ds_id (w_dsigs w)) (flat_map (fun b => map dc_id (b_dsigs b)) (w_boards w)) &&
  list_eqb (map rs_id (w_revs w)) (flat_map (fun b => map rv_id (b_revs b)) (w_boards w)) &&
  nodupb2 (map (fun m => (dc_addrl m, dc_addrh m)) (all_dacc w) ++ map (fun t => (tr_addrl t, tr_addrh t)) (w_trains w)).

(* connected boards sit at pairwise different node addresses (true of a BiDiB bus; needed for the
   by-address lookup of bidib_state_cs_accessory to find the sender) *)
Fixpoint conn_addrs_distinct (bs : list board) : bool :=
  match bs with
  | [] => true
  | b :: r => (negb (b_conn b) || negb (existsb (fun c => b_conn c && addr_eqb (b_addr c) (b_addr b)) r))
              && conn_addrs_distinct r
  end.
