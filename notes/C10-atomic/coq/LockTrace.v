(* LockTrace.v — executions of the interleaving semantics of LockSem.v as TRACES (which thread performed
   which action, in which order), and the serialisation of critical sections:
   if thread i executes a hold interval of lock l taken exclusively (from its AAcq l true to the
   matching ARel l) and thread j executes a hold interval of l (exclusive or shared), the two intervals
   do not overlap in the trace - all steps of one precede all steps of the other
   (critical_sections_serialised); hence every action thread i performs inside its interval is ordered
   the same way relative to every action thread j performs inside its interval (sections_ordered):
   a reader whose accesses all lie in one hold interval observes a writer's accesses (all inside one
   exclusive hold interval of the same lock) either all or none.
   These are properties of the lock semantics alone (no assumption on the threads' programs). *)
From Coq Require Import List Arith Bool Lia PeanoNat.
From LB Require Import LockLang LockSem.
Import ListNotations.

(* ---- list helpers ---- *)
Lemma nth_error_app_cases {A} (a b : list A) k x : nth_error (a ++ b) k = Some x ->
  (k < length a /\ nth_error a k = Some x) \/ (length a <= k /\ nth_error b (k - length a) = Some x).
Proof.
  intros H. destruct (Nat.lt_ge_cases k (length a)) as [Hlt|Hge].
  - left. split; [exact Hlt|]. rewrite nth_error_app1 in H by exact Hlt. exact H.
  - right. split; [exact Hge|]. rewrite nth_error_app2 in H by exact Hge. exact H.
Qed.

Lemma split_two {A} (l : list A) p p' x y : p < p' -> nth_error l p = Some x -> nth_error l p' = Some y ->
  exists t1 t2 t3, l = t1 ++ x :: t2 ++ y :: t3 /\ length t1 = p /\
    (forall z, In z t2 -> exists k, p < k < p' /\ nth_error l k = Some z).
Proof.
  intros Hlt Hp Hp'. destruct (nth_error_split l p Hp) as (t1 & r & -> & Hl1).
  assert (Hr : nth_error r (p' - p - 1) = Some y).
  { rewrite nth_error_app2 in Hp' by lia. rewrite Hl1 in Hp'. replace (p' - p) with (S (p' - p - 1)) in Hp' by lia. exact Hp'. }
  destruct (nth_error_split r _ Hr) as (t2 & t3 & -> & Hl2).
  exists t1, t2, t3. split; [reflexivity|]. split; [exact Hl1|].
  intros z Hz. apply In_nth_error in Hz as (n & Hn). assert (n < length t2) by (apply nth_error_Some; congruence).
  exists (p + 1 + n). split; [lia|].
  rewrite nth_error_app2 by lia. rewrite Hl1. replace (p + 1 + n - p) with (S n) by lia. cbn.
  rewrite nth_error_app1 by lia. exact Hn.
Qed.

Section Trace.
Variable rank : nat -> nat.
Variable guard : nat -> option nat.

(* a label: the index of the thread that steps, and the action it performs *)
Definition label := (nat * act)%type.

Inductive lstep : config -> label -> config -> Prop :=
| lstep_at : forall pre t t' post a, tstep rank guard (pre ++ t :: post) t t' -> th_prog t = a :: th_prog t' ->
    lstep (pre ++ t :: post) (length pre, a) (pre ++ t' :: post).

Inductive exec : config -> list label -> config -> Prop :=
| exec_nil : forall c, exec c [] c
| exec_cons : forall c lab c1 tr c2, lstep c lab c1 -> exec c1 tr c2 -> exec c (lab :: tr) c2.

(* the labelled relation is the step relation of LockSem, with the label made visible *)
Lemma lstep_step c lab c' : lstep c lab c' -> step rank guard c c'.
Proof. intros H. destruct H. apply step_at. assumption. Qed.

Lemma step_lstep c c' : step rank guard c c' -> exists lab, lstep c lab c'.
Proof.
  intros H. destruct H as [pre t t' post Hts].
  inversion Hts as [H l p H' Hf Ha|H l p H' Hf Ha|H l p H' Ha|H g wr p Ha]; subst.
  - exists (length pre, AAcq l true). apply lstep_at; [exact Hts|reflexivity].
  - exists (length pre, AAcq l false). apply lstep_at; [exact Hts|reflexivity].
  - exists (length pre, ARel l). apply lstep_at; [exact Hts|reflexivity].
  - exists (length pre, AAcc g wr). apply lstep_at; [exact Hts|reflexivity].
Qed.

Lemma exec_reach c tr c' : exec c tr c' -> reach rank guard c c'.
Proof. induction 1 as [c|c lab c1 tr c2 Hs _ IH]; [apply reach_refl|]. eapply reach_step; [eapply lstep_step; exact Hs|exact IH]. Qed.

Lemma reach_exec c c' : reach rank guard c c' -> exists tr, exec c tr c'.
Proof.
  induction 1 as [c|c c1 c2 Hs _ [tr IH]]; [exists []; apply exec_nil|].
  destruct (step_lstep _ _ Hs) as [lab Hl]. exists (lab :: tr). eapply exec_cons; eauto.
Qed.

Lemma exec_app c t1 t2 c' : exec c (t1 ++ t2) c' -> exists cm, exec c t1 cm /\ exec cm t2 c'.
Proof.
  revert c. induction t1 as [|lab t1 IH]; intros c H; cbn in H.
  - exists c. split; [apply exec_nil|exact H].
  - inversion H as [|? ? c1 ? ? Hs Hr]; subst. destruct (IH _ Hr) as (cm & A & B).
    exists cm. split; [eapply exec_cons; eauto|exact B].
Qed.

(* ---- what a labelled step does to the thread table ---- *)
Lemma lstep_thread c i a c' : lstep c (i, a) c' ->
  exists t t', nth_error c i = Some t /\ nth_error c' i = Some t' /\ tstep rank guard c t t' /\
               th_prog t = a :: th_prog t' /\ forall j, j <> i -> nth_error c' j = nth_error c j.
Proof.
  intros H. inversion H as [pre t t' post a0 Hts Hp]; subst. exists t, t'.
  split; [rewrite nth_error_app2 by lia; rewrite Nat.sub_diag; reflexivity|].
  split; [rewrite nth_error_app2 by lia; rewrite Nat.sub_diag; reflexivity|].
  split; [exact Hts|]. split; [exact Hp|].
  intros j Hj. destruct (Nat.lt_ge_cases j (length pre)) as [Hlt|Hge].
  - rewrite !nth_error_app1 by exact Hlt. reflexivity.
  - rewrite !nth_error_app2 by exact Hge. destruct (j - length pre) as [|n] eqn:E; [lia|reflexivity].
Qed.

(* thread i holds lock l in mode w *)
Definition holds_at (c : config) (i l : nat) (w : bool) : Prop :=
  exists t, nth_error c i = Some t /\ In (l, w) (th_held t).

Lemma acq_holds c i l w c' : lstep c (i, AAcq l w) c' -> holds_at c' i l w.
Proof.
  intros H. destruct (lstep_thread _ _ _ _ H) as (t & t' & _ & Ht' & Hts & Hp & _).
  exists t'. split; [exact Ht'|].
  inversion Hts as [H0 l0 p H' Hf Ha|H0 l0 p H' Hf Ha|H0 l0 p H' Ha|H0 g wr p Ha]; subst; cbn [th_prog th_held] in *;
    try discriminate.
  - injection Hp as -> <-. cbn [act_ok] in Ha. destruct (forallb _ H0); [|discriminate]. injection Ha as <-.
    apply in_insert. left. reflexivity.
  - injection Hp as -> <-. cbn [act_ok] in Ha. destruct (forallb _ H0); [|discriminate]. injection Ha as <-.
    apply in_insert. left. reflexivity.
Qed.

(* a thread keeps a lock until it releases it *)
Lemma hold_kept c j a c' i l w : lstep c (j, a) c' -> holds_at c i l w -> (j, a) <> (i, ARel l) -> holds_at c' i l w.
Proof.
  intros H (ti & Hti & Hin) Hne. destruct (lstep_thread _ _ _ _ H) as (t & t' & Ht & Ht' & Hts & Hp & Hoth).
  destruct (Nat.eq_dec j i) as [->|Hji].
  - rewrite Hti in Ht. injection Ht as <-. exists t'. split; [exact Ht'|].
    inversion Hts as [H0 l0 p H' Hf Ha|H0 l0 p H' Hf Ha|H0 l0 p H' Ha|H0 g wr p Ha]; subst; cbn [th_prog th_held] in *.
    + cbn [act_ok] in Ha. destruct (forallb _ H0); [|discriminate]. injection Ha as <-. apply in_insert. right. exact Hin.
    + cbn [act_ok] in Ha. destruct (forallb _ H0); [|discriminate]. injection Ha as <-. apply in_insert. right. exact Hin.
    + cbn [act_ok] in Ha. destruct (holds l0 H0); [|discriminate]. injection Ha as <-.
      injection Hp as <-. apply in_remove1_other; [|exact Hin]. cbn. intros ->. apply Hne. reflexivity.
    + exact Hin.
  - exists ti. split; [rewrite Hoth by (intro E; apply Hji; symmetry; exact E); exact Hti|exact Hin].
Qed.

Lemma hold_through c tr c' i l w : exec c tr c' -> holds_at c i l w -> ~ In (i, ARel l) tr -> holds_at c' i l w.
Proof.
  induction 1 as [c|c [j a] c1 tr c2 Hs _ IH]; intros Hh Hn; [exact Hh|].
  apply IH; [|intro Hin; apply Hn; right; exact Hin].
  eapply hold_kept; [exact Hs|exact Hh|]. intro E. apply Hn. left. exact E.
Qed.

(* a lock held by some thread cannot be acquired exclusively; a lock held exclusively cannot be acquired at all *)
Lemma acq_blocked c j l w' c' i w : lstep c (j, AAcq l w') c' -> holds_at c i l w -> w = true \/ w' = true -> False.
Proof.
  intros H (ti & Hti & Hin) Hw. destruct (lstep_thread _ _ _ _ H) as (t & t' & Ht & _ & Hts & Hp & _).
  assert (Hic : In ti c) by (eapply nth_error_In; exact Hti).
  inversion Hts as [H0 l0 p H' Hf Ha|H0 l0 p H' Hf Ha|H0 l0 p H' Ha|H0 g wr p Ha]; subst; cbn [th_prog th_held] in *;
    try discriminate.
  - injection Hp as -> _. apply Hf. exists ti. split; [exact Hic|]. apply in_locks. exists w. exact Hin.
  - injection Hp as -> <-. destruct Hw as [->|Hw]; [|discriminate].
    apply Hf. exists ti. split; [exact Hic|]. apply in_wlocks. exact Hin.
Qed.

(* between an acquisition of l by thread i and the next release of l by thread i, no thread acquires l
   exclusively, and if thread i holds it exclusively no thread acquires it at all *)
Lemma held_blocks_acquire c0 t1 i l w t2 j w' t3 c :
  exec c0 (t1 ++ (i, AAcq l w) :: t2 ++ (j, AAcq l w') :: t3) c ->
  ~ In (i, ARel l) t2 -> w = true \/ w' = true -> False.
Proof.
  intros He Hn Hw. apply exec_app in He as (ca & _ & He).
  inversion He as [|? ? cb ? ? Hs1 He2]; subst. apply exec_app in He2 as (cc & He2 & He3).
  inversion He3 as [|? ? cd ? ? Hs2 _]; subst.
  eapply acq_blocked; [exact Hs2| |exact Hw].
  eapply hold_through; [exact He2|eapply acq_holds; exact Hs1|exact Hn].
Qed.

(* ---- serialisation of critical sections ---- *)
(* [p, q] is a hold interval of lock l by thread i in the trace: the acquisition at p, the matching
   release at q, no release of l by i in between *)
Definition hold_interval (tr : list label) (i l : nat) (w : bool) (p q : nat) : Prop :=
  nth_error tr p = Some (i, AAcq l w) /\ nth_error tr q = Some (i, ARel l) /\ p < q /\
  forall k, p < k < q -> nth_error tr k <> Some (i, ARel l).

Theorem critical_sections_serialised c0 tr c i j l w' p q p' q' :
  exec c0 tr c -> i <> j ->
  hold_interval tr i l true p q -> hold_interval tr j l w' p' q' ->
  q < p' \/ q' < p.
Proof.
  intros He Hij (Hp & Hq & Hpq & Hno) (Hp' & Hq' & Hpq' & Hno').
  assert (Hd1 : p <> p') by (intros ->; rewrite Hp in Hp'; injection Hp' as E; apply Hij; exact E).
  assert (Hd2 : q <> p') by (intros ->; rewrite Hq in Hp'; discriminate).
  assert (Hd3 : q' <> p) by (intros ->; rewrite Hq' in Hp; discriminate).
  destruct (Nat.lt_ge_cases p p') as [Hlt|Hge].
  - left. destruct (Nat.lt_ge_cases q p') as [Hok|Hbad]; [exact Hok|]. exfalso.
    destruct (split_two tr p p' _ _ Hlt Hp Hp') as (t1 & t2 & t3 & E & _ & Hmid).
    rewrite E in He. eapply held_blocks_acquire; [exact He| |left; reflexivity].
    intros Hin. destruct (Hmid _ Hin) as (k & Hk & Hnk). apply (Hno k); [lia|exact Hnk].
  - right. destruct (Nat.lt_ge_cases q' p) as [Hok|Hbad]; [exact Hok|]. exfalso.
    assert (Hlt : p' < p) by lia.
    destruct (split_two tr p' p _ _ Hlt Hp' Hp) as (t1 & t2 & t3 & E & _ & Hmid).
    rewrite E in He. eapply held_blocks_acquire; [exact He| |right; reflexivity].
    intros Hin. destruct (Hmid _ Hin) as (k & Hk & Hnk). apply (Hno' k); [lia|exact Hnk].
Qed.

(* ---- per-thread view of a trace ---- *)
(* the actions of thread i, in order *)
Definition proj (i : nat) (tr : list label) : list act := map snd (filter (fun e => Nat.eqb (fst e) i) tr).

Lemma proj_app i a b : proj i (a ++ b) = proj i a ++ proj i b.
Proof. unfold proj. rewrite filter_app, map_app. reflexivity. Qed.
Lemma proj_cons_same i a r : proj i ((i, a) :: r) = a :: proj i r.
Proof. unfold proj. cbn. rewrite Nat.eqb_refl. reflexivity. Qed.
Lemma proj_cons_other i j a r : j <> i -> proj i ((j, a) :: r) = proj i r.
Proof. intros H. unfold proj. cbn. apply Nat.eqb_neq in H. rewrite H. reflexivity. Qed.

(* the action at position x of the trace is the k-th action (counting from 0) of thread i *)
Definition ev_at (tr : list label) (i k x : nat) (a : act) : Prop :=
  nth_error tr x = Some (i, a) /\ length (proj i (firstn x tr)) = k.

Lemma nth_error_firstn_skipn {A} (l : list A) x e : nth_error l x = Some e -> l = firstn x l ++ e :: skipn (S x) l.
Proof.
  revert x. induction l as [|h t IH]; intros [|x] H; cbn in *; try discriminate.
  - injection H as ->. reflexivity.
  - f_equal. apply IH. exact H.
Qed.

Lemma ev_at_proj tr i k x a : ev_at tr i k x a -> nth_error (proj i tr) k = Some a.
Proof.
  intros [Hn Hk]. rewrite (nth_error_firstn_skipn tr x _ Hn) at 1. rewrite proj_app, proj_cons_same.
  rewrite nth_error_app2 by lia. rewrite Hk, Nat.sub_diag. reflexivity.
Qed.

Lemma proj_ev_at tr i k a : nth_error (proj i tr) k = Some a -> exists x, ev_at tr i k x a.
Proof.
  revert k. induction tr as [|[j b] r IH]; intros k H; [destruct k; discriminate|].
  destruct (Nat.eq_dec j i) as [->|Hj].
  - rewrite proj_cons_same in H. destruct k as [|k]; cbn in H.
    + injection H as ->. exists 0. split; reflexivity.
    + destruct (IH k H) as (x & Hx & Hl). exists (S x). split; [exact Hx|].
      cbn [firstn]. rewrite proj_cons_same. cbn. rewrite Hl. reflexivity.
  - rewrite proj_cons_other in H by exact Hj. destruct (IH k H) as (x & Hx & Hl). exists (S x). split; [exact Hx|].
    cbn [firstn]. rewrite proj_cons_other by exact Hj. exact Hl.
Qed.

Lemma firstn_le_split {A} (l : list A) x x' : x <= x' -> firstn x' l = firstn x l ++ firstn (x' - x) (skipn x l).
Proof.
  revert x x'. induction l as [|h t IH]; intros x x' H.
  - rewrite !firstn_nil, skipn_nil, firstn_nil. reflexivity.
  - destruct x as [|x]; [rewrite Nat.sub_0_r; reflexivity|]. destruct x' as [|x']; [lia|].
    cbn. f_equal. apply IH. lia.
Qed.

(* positions in the trace and positions in the thread's own sequence are ordered alike *)
Lemma ev_at_mono tr i k x a k' x' a' : ev_at tr i k x a -> ev_at tr i k' x' a' -> x < x' -> k < k'.
Proof.
  intros [Hn Hk] [Hn' Hk'] Hlt. rewrite (firstn_le_split tr (S x) x') in Hk' by lia.
  rewrite proj_app, app_length in Hk'.
  assert (E : firstn (S x) tr = firstn x tr ++ [(i, a)]).
  { clear - Hn. revert x Hn. induction tr as [|h t IH]; intros [|x] H; cbn in *; try discriminate.
    - injection H as ->. reflexivity.
    - f_equal. apply IH. exact H. }
  rewrite E, proj_app, app_length in Hk'. rewrite proj_cons_same in Hk'. cbn in Hk'. lia.
Qed.

Lemma ev_at_mono_inv tr i k x a k' x' a' : ev_at tr i k x a -> ev_at tr i k' x' a' -> k < k' -> x < x'.
Proof.
  intros H H' Hlt. destruct (Nat.lt_trichotomy x x') as [L|[E|G]]; [exact L| |].
  - subst x'. destruct H as [_ Hk], H' as [_ Hk']. lia.
  - pose proof (ev_at_mono _ _ _ _ _ _ _ _ H' H G). lia.
Qed.

(* ---- the sections of two threads, given in the threads' own event sequences ---- *)
(* Thread i's events are bi ++ [AAcq l true] ++ mi ++ [ARel l] ++ ai with no release of l in mi (one
   exclusive hold interval with the section mi inside), thread j's are bj ++ [AAcq l w'] ++ mj ++ [ARel l] ++ aj.
   Then either every action of the section mi precedes, in the trace, every action of the section mj,
   or every action of mj precedes every action of mi. *)
Theorem sections_ordered c0 tr c i j l w' bi mi ai bj mj aj :
  exec c0 tr c -> i <> j ->
  proj i tr = bi ++ AAcq l true :: mi ++ ARel l :: ai -> ~ In (ARel l) mi ->
  proj j tr = bj ++ AAcq l w' :: mj ++ ARel l :: aj -> ~ In (ARel l) mj ->
  (forall x y u v a b, ev_at tr i (length bi + 1 + u) x a -> u < length mi ->
                       ev_at tr j (length bj + 1 + v) y b -> v < length mj -> x < y) \/
  (forall x y u v a b, ev_at tr i (length bi + 1 + u) x a -> u < length mi ->
                       ev_at tr j (length bj + 1 + v) y b -> v < length mj -> y < x).
Proof.
  intros He Hij Hpi Hmi Hpj Hmj.
  assert (Hinterval : forall n b w m a0, proj n tr = b ++ AAcq l w :: m ++ ARel l :: a0 -> ~ In (ARel l) m ->
            exists p q, ev_at tr n (length b) p (AAcq l w) /\ ev_at tr n (length b + 1 + length m) q (ARel l) /\
                        hold_interval tr n l w p q).
  { intros n b w m a0 Hpr Hm.
    assert (Ha : nth_error (proj n tr) (length b) = Some (AAcq l w)).
    { rewrite Hpr, nth_error_app2 by lia. rewrite Nat.sub_diag. reflexivity. }
    assert (Hr : nth_error (proj n tr) (length b + 1 + length m) = Some (ARel l)).
    { rewrite Hpr, nth_error_app2 by lia. replace (length b + 1 + length m - length b) with (S (length m)) by lia.
      cbn. rewrite nth_error_app2 by lia. rewrite Nat.sub_diag. reflexivity. }
    destruct (proj_ev_at _ _ _ _ Ha) as (p & Hp). destruct (proj_ev_at _ _ _ _ Hr) as (q & Hq).
    exists p, q. split; [exact Hp|]. split; [exact Hq|].
    assert (Hpq : p < q) by (eapply ev_at_mono_inv; [exact Hp|exact Hq|lia]).
    split; [exact (proj1 Hp)|]. split; [exact (proj1 Hq)|]. split; [exact Hpq|].
    intros k Hk Hnk.
    assert (Hev : ev_at tr n (length (proj n (firstn k tr))) k (ARel l)) by (split; [exact Hnk|reflexivity]).
    pose proof (ev_at_mono _ _ _ _ _ _ _ _ Hp Hev (proj1 Hk)) as L1.
    pose proof (ev_at_mono _ _ _ _ _ _ _ _ Hev Hq (proj2 Hk)) as L2.
    apply ev_at_proj in Hev. rewrite Hpr in Hev. rewrite nth_error_app2 in Hev by lia.
    remember (length (proj n (firstn k tr)) - length b) as d eqn:Ed. destruct d as [|d]; [lia|]. cbn in Hev.
    rewrite nth_error_app1 in Hev by lia. apply Hm. eapply nth_error_In. exact Hev. }
  destruct (Hinterval i bi true mi ai Hpi Hmi) as (p & q & Hp & Hq & Hint).
  destruct (Hinterval j bj w' mj aj Hpj Hmj) as (p' & q' & Hp' & Hq' & Hint').
  destruct (critical_sections_serialised c0 tr c i j l w' p q p' q' He Hij Hint Hint') as [Hlt|Hlt].
  - left. intros x y u v a b Hx Hu Hy Hv.
    assert (x < q) by (eapply ev_at_mono_inv; [exact Hx|exact Hq|lia]).
    assert (p' < y) by (eapply ev_at_mono_inv; [exact Hp'|exact Hy|lia]). lia.
  - right. intros x y u v a b Hx Hu Hy Hv.
    assert (y < q') by (eapply ev_at_mono_inv; [exact Hy|exact Hq'|lia]).
    assert (p < x) by (eapply ev_at_mono_inv; [exact Hp|exact Hx|lia]). lia.
Qed.

(* ---- executions exist: one thread running on its own while the others hold nothing (for examples) ---- *)
Lemma exec_trans c1 t1 c2 t2 c3 : exec c1 t1 c2 -> exec c2 t2 c3 -> exec c1 (t1 ++ t2) c3.
Proof. induction 1 as [c|c lab c' tr c'' Hs _ IH]; intros H2; [exact H2|]. cbn. eapply exec_cons; [exact Hs|apply IH; exact H2]. Qed.

Lemma solo_exec (pre0 post0 : config) (p rest : list act) : forall H H',
  (forall t, In t (pre0 ++ post0) -> th_held t = []) ->
  acts_ok rank guard H p = Some H' ->
  exec (pre0 ++ {| th_held := H; th_prog := p ++ rest |} :: post0) (map (pair (length pre0)) p)
       (pre0 ++ {| th_held := H'; th_prog := rest |} :: post0).
Proof.
  induction p as [|a p IH]; intros H H' Hidle Hok; cbn [acts_ok] in Hok.
  - injection Hok as <-. apply exec_nil.
  - destruct (act_ok rank guard H a) as [H1|] eqn:Ea; [|discriminate].
    cbn [map]. eapply exec_cons; [|apply (IH H1 H' Hidle Hok)].
    cbn [app]. apply lstep_at; [|reflexivity].
    assert (Hfree : forall l w, a = AAcq l w -> ~ holds_any (pre0 ++ {| th_held := H; th_prog := a :: p ++ rest |} :: post0) l).
    { intros l w -> (t & Hin & Hl). cbn [act_ok] in Ea.
      destruct (forallb (fun h => Nat.ltb (rank (fst h)) (rank l)) H) eqn:Ef; [|discriminate].
      apply in_app_or in Hin as [Hin|[<-|Hin]].
      - unfold th_locks in Hl. rewrite (Hidle t) in Hl by (apply in_or_app; left; exact Hin). contradiction.
      - unfold th_locks in Hl. cbn [th_held] in Hl. apply in_locks in Hl as (w' & Hl).
        rewrite forallb_forall in Ef. specialize (Ef _ Hl). cbn in Ef. apply Nat.ltb_lt in Ef. lia.
      - unfold th_locks in Hl. rewrite (Hidle t) in Hl by (apply in_or_app; right; exact Hin). contradiction. }
    destruct a as [l w|l|g wr].
    + destruct w; [apply s_acq_w|apply s_acq_r]; try exact Ea.
      * eapply Hfree; reflexivity.
      * intros (t & Hin & Hl). eapply Hfree; [reflexivity|]. exists t. split; [exact Hin|apply wlocks_incl; exact Hl].
    + apply s_rel. exact Ea.
    + assert (H1 = H). { cbn [act_ok] in Ea. destruct (guard g); [destruct (holds_for _ _ H); [|discriminate]|]; congruence. }
      subst H1. apply s_acc. exact Ea.
Qed.

Lemma proj_map_same i p : proj i (map (pair i) p) = p.
Proof. induction p as [|a r IH]; [reflexivity|]. cbn [map]. rewrite proj_cons_same, IH. reflexivity. Qed.
Lemma proj_map_other i j p : j <> i -> proj i (map (pair j) p) = [].
Proof. intros H. induction p as [|a r IH]; [reflexivity|]. cbn [map]. rewrite proj_cons_other by exact H. exact IH. Qed.

(* two fresh threads, the first runs the path W to its end, then the second runs R *)
Lemma two_threads_exec W R : acts_ok rank guard [] W = Some [] -> acts_ok rank guard [] R = Some [] ->
  exists tr c, exec (map fresh_thread [[W]; [R]]) tr c /\ proj 0 tr = [] ++ W ++ [] /\ proj 1 tr = [] ++ R ++ [].
Proof.
  intros HW HR. exists (map (pair 0) W ++ map (pair 1) R), [ {| th_held := []; th_prog := [] |}; {| th_held := []; th_prog := [] |} ].
  split; [|split].
  - eapply exec_trans.
    + cbn [map fresh_thread concat]. apply (solo_exec [] [ {| th_held := []; th_prog := R ++ [] |} ] W [] [] []); [|exact HW].
      intros t [<-|[]]. reflexivity.
    + apply (solo_exec [ {| th_held := []; th_prog := [] |} ] [] R [] [] []); [|exact HR].
      intros t [<-|[]]. reflexivity.
  - rewrite proj_app, proj_map_same, proj_map_other by discriminate. rewrite !app_nil_r. reflexivity.
  - rewrite proj_app, proj_map_same, proj_map_other by discriminate. rewrite app_nil_r. reflexivity.
Qed.

End Trace.
