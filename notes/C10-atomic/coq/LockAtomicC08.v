(* LockAtomicC08.v — the single-hold facts behind C08's atomic view, checked against the generated lock
   programs, and the resulting semantic theorem. *)
From Coq Require Import List Arith Bool.
From LB Require Import LockLang LockCfg LockSem LockTrace LockAtomic.
Import ListNotations.

(* bidib_state_bm_occ / bm_multiple / bm_address: on every path all accesses to the segment table and to the
   train-state table lie inside one hold of trackstate_segments_mutex and inside one hold of
   trackstate_trains_mutex; the getters read inside one hold *)
Lemma c08_single_hold : forallb (sh_check body call_depth) (c08_writer_facts ++ c08_reader_facts) = true.
Proof. vm_compute. reflexivity. Qed.

(* Any execution, any number of threads. Thread i's events contain a path W of an occupancy setter, thread j's
   a path R of one of the getters, both facts about the same mutex l. Then, in the trace, either every access
   of W to the segment/train-state tables precedes every access of R to the tables it reads, or every such
   access of R precedes every such access of W: the getter sees the tables before the report or after the
   report was applied completely (address list AND derived train data), never a state in between. *)
Theorem c08_atomic_view fw l gw fr xr gr :
  In (fw, l, true, gw) c08_writer_facts -> In (fr, l, xr, gr) c08_reader_facts ->
  forall c0 tr c i j bi W ai bj R aj argsw argsr,
  exec rank guard c0 tr c -> i <> j ->
  proj i tr = bi ++ W ++ ai -> proj j tr = bj ++ R ++ aj ->
  run_call body call_depth argsw fw W -> run_call body call_depth argsr fr R ->
  (forall x y k k' a b, ev_at tr i k x a -> length bi <= k < length bi + length W -> is_gs gw a = true ->
                        ev_at tr j k' y b -> length bj <= k' < length bj + length R -> is_gs gr b = true -> x < y) \/
  (forall x y k k' a b, ev_at tr i k x a -> length bi <= k < length bi + length W -> is_gs gw a = true ->
                        ev_at tr j k' y b -> length bj <= k' < length bj + length R -> is_gs gr b = true -> y < x).
Proof.
  intros Hw Hr c0 tr c i j bi W ai bj R aj argsw argsr He Hij Hpi Hpj HW HR.
  pose proof c08_single_hold as Hf.
  eapply sh_paths_ordered; try eassumption.
  - eapply sh_check_sound; [exact Hf|apply in_or_app; left; exact Hw|exact HW].
  - eapply sh_check_sound; [exact Hf|apply in_or_app; right; exact Hr|exact HR].
Qed.

(* every getter fact is paired with writer facts on the same mutex, and there are 3 setters x 2 mutexes, 5 getter facts *)
Lemma c08_tables_nonvacuous :
  length c08_writer_facts = 6 /\ length c08_reader_facts = 5 /\
  forallb (fun r => let '(_, l, _, _) := r in
             Nat.eqb (length (filter (fun w => let '(_, lw, ex, _) := w in Nat.eqb lw l && ex) c08_writer_facts)) 3) c08_reader_facts = true.
Proof. vm_compute. repeat split. Qed.

(* a concrete instance from the generated table: a path of bidib_state_bm_occ and a path of bidib_get_train_state,
   both with accesses to the train-state table, and an execution of two threads in which they run (the premises of
   c08_atomic_view are satisfiable); the translator sets ex_atomic_present when it found such paths *)
From LB Require Import LockWitness.
Lemma c08_atomic_example : ex_atomic_present = true ->
  existsb (fun w => let '(fw, lw, _, gw) := w in
     existsb (fun r => let '(fr, lr, _, gr) := r in
        Nat.eqb fw ex_c08_writer && Nat.eqb fr ex_c08_reader && Nat.eqb lw lr &&
        existsb (Nat.eqb ex_atomic_global) gw && existsb (Nat.eqb ex_atomic_global) gr) c08_reader_facts) c08_writer_facts = true /\
  exists W R tr c, run_call body call_depth [] ex_c08_writer W /\ run_call body call_depth [] ex_c08_reader R /\
    In (AAcc ex_atomic_global true) W /\ In (AAcc ex_atomic_global true) R /\
    exec rank guard (map fresh_thread [[W]; [R]]) tr c /\ proj 0 tr = [] ++ W ++ [] /\ proj 1 tr = [] ++ R ++ [].
Proof.
  intros E. first [discriminate E|clear E].
  split; [vm_compute; reflexivity|].
  destruct (witness body call_depth 12 ex_c08_writer (AAcc ex_atomic_global true)) as [[pw rw]|] eqn:Ew; [|vm_compute in Ew; discriminate].
  destruct (witness body call_depth 12 ex_c08_reader (AAcc ex_atomic_global true)) as [[pr rr]|] eqn:Er; [|vm_compute in Er; discriminate].
  eapply atomic_example; [exact Ew|exact Er|vm_compute; reflexivity|vm_compute; reflexivity].
Qed.
