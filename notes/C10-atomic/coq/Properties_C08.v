(* Properties_C08.v — C08: train presence / position / orientation always agree with the segment
   address lists. `run c h` folds the model of the dispatcher + setters (State.v) over ANY history h of
   node events, uplink messages of every type with arbitrary payload, and user drive / DCC-accessory
   commands, for ANY configuration c; `Ok s` excludes only configurations with an aspect-less accessory mapping, which the
   parser rejects (since the C12 repairs no message content is a fault: C07_never_faults). train_position is the model of bidib_get_train_position(_intern),
   tr_on / tr_left are what bidib_get_train_on_track / bidib_get_train_state return. *)
From Coq Require Import List NArith ZArith Bool Arith.
From LB Require Import Tables StateTabs State StateProofs.
From LB Require LockLang LockCfg LockSem LockTrace LockAtomic LockAtomicC08.
Import ListNotations.
Local Open Scope N_scope.

(* the invariant holds after every prefix of every history (Inv: for every configured train, on_track
   iff its position query is non-empty, and then the stored orientation is the one of the query) *)
Theorem C08_inv : forall c h1 h2 s, run c (h1 ++ h2) = Ok s -> exists s1, run c h1 = Ok s1 /\ Inv c s1.
Proof. exact Inv_every_prefix. Qed.
Print Assumptions C08_inv.

(* a train is reported on track exactly when at least one segment currently lists its DCC address *)
Theorem C08_on_track_iff : forall c h s i tc ts, run c h = Ok s ->
  nth_error (c_trains c) i = Some tc -> nth_error (s_trains s) i = Some ts ->
  (tr_on ts = true <-> exists g sg, nth_error (s_segs s) g = Some sg /\ lists_train tc sg).
Proof. exact (fun c h s i tc ts H => on_track_iff c s i tc ts (Inv_run c h s H)). Qed.
Print Assumptions C08_on_track_iff.

(* the reported position is exactly the set of those segments ... *)
Theorem C08_position_set : forall c s i tc ts,
  nth_error (c_trains c) i = Some tc -> nth_error (s_trains s) i = Some ts ->
  forall g, In g (fst (train_position c s i)) <-> exists sg, nth_error (s_segs s) g = Some sg /\ lists_train tc sg.
Proof. exact position_segments. Qed.
Print Assumptions C08_position_set.

(* ... as a list: the segments that list the address, in segment-table order, each once, provided no
   segment lists the same decoder twice (a report naming one decoder twice makes the getter name the
   segment twice: see C08_duplicate_listing below) *)
Theorem C08_position_exact : forall c s i tc ts,
  nth_error (c_trains c) i = Some tc -> nth_error (s_trains s) i = Some ts ->
  Forall (at_most_once tc) (s_segs s) ->
  fst (train_position c s i) = filter (fun g => lists_b tc (nth g (s_segs s) seg0)) (seq 0 (length (s_segs s))).
Proof. exact position_exact. Qed.
Print Assumptions C08_position_exact.

(* the on-track flag never lags behind the position query: after every history they agree *)
Theorem C08_on_track_is_position : forall c h s i tc ts, run c h = Ok s ->
  nth_error (c_trains c) i = Some tc -> nth_error (s_trains s) i = Some ts ->
  tr_on ts = negb (match fst (train_position c s i) with [] => true | _ => false end).
Proof. exact (fun c h s i tc ts H => on_track_eq_position c s i tc ts (Inv_run c h s H)). Qed.
Print Assumptions C08_on_track_is_position.

(* the orientation of a train on track is one that was reported together with its address in a segment
   that currently lists it, and it is the orientation the position query returns *)
Theorem C08_orientation : forall c h s i tc ts, run c h = Ok s ->
  nth_error (c_trains c) i = Some tc -> nth_error (s_trains s) i = Some ts -> tr_on ts = true ->
  (exists g sg d, nth_error (s_segs s) g = Some sg /\ In d (sg_addrs sg) /\ d_l d = tc_l tc /\ d_h d = tc_h tc /\
                  tr_left ts = (d_t d =? 0)) /\
  tr_left ts = snd (train_position c s i).
Proof. exact (fun c h s i tc ts H => orientation_reported c s i tc ts (Inv_run c h s H)). Qed.
Print Assumptions C08_orientation.

(* a segment that has just been reported free lists no addresses: single report ... *)
Theorem C08_free_clears : forall c s a n rest g sg, Inv c s -> seg_ref c s a n = Some (g, sg) ->
  exists s', apply c s (EMsg a MSG_BM_FREE (n :: rest)) = Ok s' /\ cleared s' g /\ Inv c s'.
Proof. exact free_report_clears. Qed.
Print Assumptions C08_free_clears.

(* ... and a clear bit of a MULTIPLE bitmap -- of a report whose bitmap is complete ((size + 7) / 8 bytes); a report
   with an incomplete bitmap is malformed and ignored as a whole (dispatcher rule since the C12 repair) *)
Theorem C08_multiple_clears : forall c s a n sz bits s' i g sg,
  bitmap_complete sz bits = true ->
  apply c s (EMsg a MSG_BM_MULTIPLE (n :: sz :: bits)) = Ok s' -> (i < multiple_count n sz)%nat ->
  bit (nth (i / 8) bits 0) (N.of_nat (i mod 8)) = false ->
  seg_ref c s a (n + N.of_nat i) = Some (g, sg) -> cleared s' g /\ Inv c s'.
Proof. exact multiple_report_clears. Qed.
Print Assumptions C08_multiple_clears.

Theorem C08_incomplete_multiple_ignored : forall c s a n sz bits,
  bitmap_complete sz bits = false -> apply c s (EMsg a MSG_BM_MULTIPLE (n :: sz :: bits)) = Ok s.
Proof. exact multiple_report_incomplete. Qed.
Print Assumptions C08_incomplete_multiple_ignored.

(* concurrent readers, syntactic part (kept beside the semantic theorem C08_atomic_view below: it additionally says that
   the call of bidib_state_update_train_available lies inside the region; a fact about the source's syntax, produced by translator/gen_statetabs.py from the
   clang AST on every run, not a theorem about an execution model): bidib_state_bm_occ / bm_multiple / bm_address
   acquire {trains rwlock, segments mutex, trains mutex} once each as top-level statements, release them once, have
   no return or goto in between, and call bidib_state_update_train_available inside that region; the getters
   bidib_get_train_position (all three locks), bidib_get_train_state, bidib_get_train_on_track (trains mutex) and
   bidib_get_segment_state (segments mutex) read inside one such hold. Together with C10/C11 (guards held at every
   access, no deadlock) a concurrent reader therefore sees the segment table and the derived train data of one
   prefix state: the states between "address list changed" and "train data updated" are never visible. *)
Theorem C08_atomic_view_partial : forallb (fun b => b) single_hold_facts = true /\ length single_hold_facts = 7%nat.
Proof. exact single_hold_all. Qed.
Print Assumptions C08_atomic_view_partial.

(* concurrent readers, semantically (LockTrace.v / LockAtomic.v over the lock programs regenerated from the source by
   translator/gen_lockcfg.py): in ANY execution of any number of threads (any interleaving; mutexes exclusive), if
   thread i's events contain a path W of bidib_state_bm_occ / bm_multiple / bm_address and thread j's contain a
   path R of bidib_get_train_position / bidib_get_train_state / bidib_get_train_on_track / bidib_get_segment_state
   (the fact tables pair each getter with the setters through a common mutex l), then in the trace either every
   access of W to the segment table and the train-state table precedes every access of R to the tables it reads,
   or every such access of R precedes every such access of W. The verified single-hold checker established for
   every path of these functions that all accesses to these tables lie inside one hold of l
   (LockAtomicC08.c08_single_hold); critical sections of one mutex are serialised (critical_sections_serialised).
   So a getter sees the tables as they were before a report or after the report has been applied completely. *)
Theorem C08_atomic_view : forall fw l gw fr xr gr,
  In (fw, l, true, gw) LockCfg.c08_writer_facts -> In (fr, l, xr, gr) LockCfg.c08_reader_facts ->
  forall c0 tr c i j bi W ai bj R aj argsw argsr,
  LockTrace.exec LockCfg.rank LockCfg.guard c0 tr c -> i <> j ->
  LockTrace.proj i tr = bi ++ W ++ ai -> LockTrace.proj j tr = bj ++ R ++ aj ->
  LockLang.run_call LockCfg.body LockCfg.call_depth argsw fw W -> LockLang.run_call LockCfg.body LockCfg.call_depth argsr fr R ->
  (forall x y k k' a b, LockTrace.ev_at tr i k x a -> (length bi <= k < length bi + length W)%nat -> LockAtomic.is_gs gw a = true ->
                        LockTrace.ev_at tr j k' y b -> (length bj <= k' < length bj + length R)%nat -> LockAtomic.is_gs gr b = true -> (x < y)%nat) \/
  (forall x y k k' a b, LockTrace.ev_at tr i k x a -> (length bi <= k < length bi + length W)%nat -> LockAtomic.is_gs gw a = true ->
                        LockTrace.ev_at tr j k' y b -> (length bj <= k' < length bj + length R)%nat -> LockAtomic.is_gs gr b = true -> (y < x)%nat).
Proof. exact LockAtomicC08.c08_atomic_view. Qed.
Print Assumptions C08_atomic_view.

(* the generic theorem behind it: hold intervals of one lock, one of them exclusive, never overlap in a trace *)
Theorem C08_critical_sections_serialised : forall c0 tr c i j l w' p q p' q',
  LockTrace.exec LockCfg.rank LockCfg.guard c0 tr c -> i <> j ->
  LockTrace.hold_interval tr i l true p q -> LockTrace.hold_interval tr j l w' p' q' -> (q < p')%nat \/ (q' < p)%nat.
Proof. exact (LockTrace.critical_sections_serialised LockCfg.rank LockCfg.guard). Qed.
Print Assumptions C08_critical_sections_serialised.

(* non-vacuity: 3 setters x 2 mutexes, 5 getter facts, each getter fact paired with the three setters; and (when the
   translator found them: ex_atomic_present) concrete paths of bidib_state_bm_occ and bidib_get_train_state with
   accesses to the train-state table and an execution of two threads running them *)
Example C08_atomic_view_nonvacuous :
  (length LockCfg.c08_writer_facts = 6 /\ length LockCfg.c08_reader_facts = 5 /\
   forallb (fun r => let '(_, l, _, _) := r in
             Nat.eqb (length (filter (fun w => let '(_, lw, ex, _) := w in Nat.eqb lw l && ex) LockCfg.c08_writer_facts)) 3) LockCfg.c08_reader_facts = true)%nat /\
  (LockCfg.ex_atomic_present = true ->
   exists W R tr c, LockLang.run_call LockCfg.body LockCfg.call_depth [] LockCfg.ex_c08_writer W /\
     LockLang.run_call LockCfg.body LockCfg.call_depth [] LockCfg.ex_c08_reader R /\
     In (LockLang.AAcc LockCfg.ex_atomic_global true) W /\ In (LockLang.AAcc LockCfg.ex_atomic_global true) R /\
     LockTrace.exec LockCfg.rank LockCfg.guard (map LockSem.fresh_thread [[W]; [R]]) tr c /\
     LockTrace.proj 0 tr = [] ++ W ++ [] /\ LockTrace.proj 1 tr = [] ++ R ++ []).
Proof. exact (conj LockAtomicC08.c08_tables_nonvacuous (fun E => proj2 (LockAtomicC08.c08_atomic_example E))). Qed.

(* ---- a concrete, non-trivial instance: two boards, three segments, two trains; train 0 spans two
   segments with different orientations, train 1 shares a segment with it; then one segment is freed *)
Definition ex_board (uid : list N) (segs : list (N * nat)) : board_cfg :=
  {| bc_uid := uid; bc_secack := false; bc_segs := segs; bc_points := []; bc_signals := []; bc_dpoints := []; bc_dsignals := [];
     bc_periph := []; bc_revs := [] |}.
Definition ex_cfg : cfg :=
  {| c_boards := [ex_board [0;1;2;3;4;5;6] [(0, 0%nat); (1, 1%nat)]; ex_board [0;9;9;9;9;9;9] [(0, 2%nat)]];
     c_trains := [{| tc_l := 35; tc_h := 1; tc_bits := [] |}; {| tc_l := 2; tc_h := 3; tc_bits := [] |}];
     c_nsegs := 3; c_npoints := 0; c_nsignals := 0; c_ndpoints := 0; c_ndsignals := 0; c_nper := 0; c_nrev := 0 |}.
Definition ex_hist : list event :=
  [ENodeNew (0,0,0) 1 [0;1;2;3;4;5;6]; ENodeNew (0,0,0) 2 [0;9;9;9;9;9;9];
   EMsg (1,0,0) MSG_BM_ADDRESS [0; 35; 1];                 (* train 0, forward, on segment 0 *)
   EMsg (2,0,0) MSG_BM_ADDRESS [0; 35; 129; 2; 3];         (* train 0, backward, and train 1 on segment 2 *)
   EMsg (9,0,0) MSG_BM_FREE [0]].                          (* unknown node *)
Example C08_nonvacuous :
  match run ex_cfg ex_hist with
  | Ok s => map (fun t => (tr_on t, tr_left t)) (s_trains s) = [(true, false); (true, true)] /\
            train_position ex_cfg s 0 = ([0%nat; 2%nat], false) /\ train_position ex_cfg s 1 = ([2%nat], true)
  | Fault _ => False
  end /\
  match run ex_cfg (ex_hist ++ [EMsg (2,0,0) MSG_BM_FREE [0]]) with
  | Ok s => map (fun t => (tr_on t, tr_left t)) (s_trains s) = [(true, true); (false, true)] /\
            train_position ex_cfg s 0 = ([0%nat], true) /\ train_position ex_cfg s 1 = ([], true)
  | Fault _ => False
  end.
Proof. vm_compute. repeat split. Qed.

(* observation: an address report that names the same decoder twice makes the position query name the
   segment twice (the set of segments is still exact, C08_position_set) *)
Example C08_duplicate_listing :
  match run ex_cfg [ENodeNew (0,0,0) 1 [0;1;2;3;4;5;6]; EMsg (1,0,0) MSG_BM_ADDRESS [1; 35; 1; 35; 1]] with
  | Ok s => train_position ex_cfg s 0 = ([1%nat; 1%nat], true)
  | Fault _ => False
  end.
Proof. vm_compute. reflexivity. Qed.
