"""C03 — per-node response budget never exceeded; deferred messages FIFO, never stranded."""
import vlib, flowgen
from vlib import Rng, hexs, unhex

def heartbeat_probe(ck):
    """The never-stranded theorem needs the expiry pass (FExpire) to run after clock changes. In the correspondence runs the
    harness calls it synchronously from `time n`; here the heartbeat thread of the running library must do it by itself:
    `hbtime n` moves the clock and lets the (otherwise parked) heartbeat thread run two cycles of its loop."""
    exe = vlib.build_harness()
    probes = []
    # one node: six 7-byte requests fill 42 of 48 bytes, an 11-byte request is held; all expire
    probes.append(("hb1", ["send 1 0 0 6 -"] * 6 + ["send 1 0 0 5 -", "flush", "mark before", "hbtime 2005", "flush", "mark after"],
                   {(1,): 7}))
    # three nodes, one of them stalled meanwhile: its held message must stay held, the others must go out
    body = []
    for n in ("1 0 0", "2 0 0", "1 2 0"): body += ["send %s 6 -" % n] * 6 + ["send %s 5 -" % n]
    body += ["flush", "rx " + hexs(flowgen.frame(flowgen.upmsg([2], 0, 0x8E, [1]))), "mark before", "hbtime 2003", "flush", "mark after"]
    probes.append(("hb3", body, {(1,): 7, (2,): 6, (1, 2): 7}))
    L = ["start 1 - 0"]
    for cid, b, _ in probes: L += ["case " + cid, "cap 0", "flush", "reset_nodes", "seqon 1", "time 2000"] + b
    rc, out, err = vlib.run_driver(exe, "\n".join(L) + "\n", timeout=120)
    pc = vlib.split_cases(out); bad = 0
    for cid, b, want in probes:
        lines = pc.get(cid)
        got = {}
        pk = flowgen.decode_wire([unhex(l[2:]) for l in (lines or []) if l.startswith("w ")]) if lines is not None else None
        for p in pk or []:
            for m in p: got[flowgen.msg_fields(m)[0]] = got.get(flowgen.msg_fields(m)[0], 0) + 1
        if lines is None or pk is None or got != want or "hb-timeout" in lines:
            bad += 1
            ck.violation("timer.heartbeat-does-not-expire", {"property": "C03", "script": ["case replay", "cap 0", "flush", "reset_nodes", "seqon 1", "time 2000"] + b,
                         "impl": lines, "reason": "after the clock moved past the expiry age of all outstanding requests and the heartbeat thread ran, messages per node on the wire are %s, expected %s (held messages that fit must be transmitted, those of the stalled node must not)" % ({str(k): v for k, v in got.items()}, {str(k): v for k, v in want.items()}),
                         "stderr": err[-400:]})
    ck.oblige("heartbeat thread runs the expiry pass on the real code (%d probes)" % len(probes), bad == 0, "%d bad" % bad)
    ck.coverage["heartbeat_probes"] = len(probes)

def run(ck):
    quick = ck.tier == "quick"
    def make(info):
        r = Rng(ck.seed).fork("C03"); g = flowgen.Gen(r, info, stalls=False)
        return [g.history() for _ in range(2500 if quick else 60000)]
    flowgen.run_flow_check(ck, "Properties_C03.v", "C03", make, "corr_nodeflow_budget")
    heartbeat_probe(ck)
    ck.coverage["rule"] = "seeded histories of sends (all request types, several nodes), uplink answers (matching/alternative/unrelated/duplicate), clock jumps of 1-60 s each followed by the library's expiry pass, and flushes, no stall notices; non-trivial = some message was deferred or released by an uplink message or by the expiry pass"
    ck.assumptions += ["time(NULL) is the virtual clock of the harness; `time n` sets it and runs bidib_node_state_expire_responses synchronously (in the running library the heartbeat thread does so within 0.1 s: probed by heartbeat_probe, the latency itself is runtime behaviour)",
                       "uplink traffic is injected through the real receiver thread in low-level debug mode"]
    return vlib.finish_with_broken(ck, trusted=vlib.TRUSTED_COMMON)

def replay(ck, path):
    return vlib.replay_generic(ck, path)
