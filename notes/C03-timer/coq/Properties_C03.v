(* Properties_C03.v — C03: per-node response budget; deferred messages FIFO, never stranded.
   Statements only. tab_run is the node-table half of the library for an arbitrary event history
   (sends, uplink messages, clock changes, flushes, capacity changes); every prefix of a history is
   a history, so each theorem speaks about the state after every prefix. FExpire is the periodic
   bidib_node_state_expire_responses of the heartbeat thread. *)
From Coq Require Import List NArith Bool.
From LB Require Import Tables Framing NodeFlow NodeFlowProofs NoStrandProofs BudgetSpec BudgetProofs TimerSpecProofs.
Import ListNotations.
Local Open Scope N_scope.

(* the library's counter equals the sum of the worst-case response sizes of the requests it still
   lists as outstanding, and never exceeds the limit - for every node, after every history *)
Theorem C03_budget : forall es so now0,
  let '(t, _, _, _, _) := tab_run [] so now0 es in
  forall a, n_used (get t a) = sumsz (n_resp (get t a)) /\ n_used (get t a) <= response_limit.
Proof. exact (fun es so now0 => tab_run_ok es [] so now0 tab_ok_nil). Qed.
Print Assumptions C03_budget.

(* The same in the property's own accounting (BudgetSpec.v, independent of the library's counter):
   per node, the requests transmitted to it with their transmission time; an uplink message removes the
   oldest live request if it is one of its answers; a request is live for 2 seconds. Along every history
   with a monotone clock the worst-case response sizes of the live outstanding requests of every node sum
   to at most the library's counter (the library only ever over-counts: lazy expiry), hence to at most 48. *)
Theorem C03_budget_spec : forall es so now0, clock_mono now0 es = true ->
  let '(t, now, spec) := spec_run [] so now0 es (fun _ => []) in
  forall a, outstanding_sum now (spec a) <= n_used (get t a) /\ n_used (get t a) <= response_limit.
Proof. exact budget_spec. Qed.
Print Assumptions C03_budget_spec.

Theorem C03_limit_is_48 : response_limit = 48 /\ expiry_secs = 2.
Proof. exact (conj eq_refl eq_refl). Qed.

(* requests whose 2-second expiry has passed are only ever over-counted by the library:
   the live outstanding requests (the property's accounting) sum to at most the counter *)
Theorem C03_budget_live : forall es so now0,
  let '(t, _, now, _, _) := tab_run [] so now0 es in
  forall a, live_sum now (get t a) <= response_limit.
Proof.
  exact (fun es so now0 =>
    match tab_run [] so now0 es as r return
      (let '(t, _, _, _, _) := r in tab_ok t) -> (let '(t, _, now, _, _) := r in forall a, live_sum now (get t a) <= response_limit)
    with (t, _, now, _, _) => fun H a => live_sum_le now (get t a) (H a) end (tab_run_ok es [] so now0 tab_ok_nil)).
Qed.
Print Assumptions C03_budget_live.

(* FIFO, exactly once: for every node, what has been handed to the transmit buffer followed by what
   is still held equals what was submitted, in submission order - no loss, duplication, reordering *)
Theorem C03_fifo_once : forall es so now0, forallb (fun e => negb (is_reset e)) es = true ->
  let '(t, _, _, log, _) := tab_run [] so now0 es in
  forall a, sent a log ++ heldm t a = submitted a log.
Proof. exact (fun es so now0 H => tab_run_fifo es [] so now0 H). Qed.
Print Assumptions C03_fifo_once.

(* whenever the held queue of a node is retried (after a matching answer, after a stall is lifted),
   it is drained until it is empty, the node is blocked by a stall, or the head does not fit *)
Theorem C03_retry_drains : forall t a now,
  let t' := fst (try_queued t a now) in
  n_held (get t' a) = [] \/ ~ unblocked t' a \/ head_blocked_by_budget t' a.
Proof. exact try_queued_post. Qed.
Print Assumptions C03_retry_drains.

(* Never stranded. The library's heartbeat thread runs bidib_node_state_expire_responses every 0.1 s
   (event FExpire): it drops the outstanding requests that have reached the expiry age and retries the
   held queue of every node whose oldest held message fits. For EVERY history with a monotone clock
   (sends, answers, alternative/unrelated/duplicated answers, lost answers, stall notices, clock changes,
   resets; other events may even come between a clock change and the timer pass), at every point at which
   the timer has fired since the last clock change (timer_settled): a node that holds a message and has no
   stalled ancestor-or-self has no room for the oldest held message in its budget - the budget being the
   sum over the requests that are neither answered nor 2 seconds old (live_sum), as in the property text.
   Every prefix of a history is a history, so this speaks about every such point of every run. *)
Theorem C03_no_strand : forall es so now0, clock_mono now0 es = true -> timer_settled es = true ->
  let '(t, _, now, _, _) := tab_run [] so now0 es in
  forall a, n_held (get t a) <> [] -> unblocked t a ->
    exists ty m rest, n_held (get t a) = (ty, m) :: rest /\ response_limit < live_sum now (get t a) + resp_size ty.
Proof. exact no_strand_timer. Qed.
Print Assumptions C03_no_strand.

(* the same with the executable definition of "stranded" that the refutation on the unrepaired
   library used (held, no stalled ancestor-or-self, head fits once expired requests are discounted) *)
Theorem C03_no_strand_exec : forall es so now0, clock_mono now0 es = true -> timer_settled es = true ->
  let '(t, _, now, _, _) := tab_run [] so now0 es in forall a, strandedb t now a = false.
Proof. exact no_strand_timer_b. Qed.
Print Assumptions C03_no_strand_exec.

(* the form checked against the implementation: the timer fires right after every clock change (the
   harness calls it synchronously in its `time` command); every prefix that does not end in a clock
   change is such a history *)
Theorem C03_no_strand_timer_follows : forall es so now0, clock_mono now0 es = true -> timer_follows es = true ->
  let '(t, _, now, _, _) := tab_run [] so now0 es in
  forall a, n_held (get t a) <> [] -> unblocked t a ->
    exists ty m rest, n_held (get t a) = (ty, m) :: rest /\ response_limit < live_sum now (get t a) + resp_size ty.
Proof. exact no_strand_timer_follows. Qed.
Print Assumptions C03_no_strand_timer_follows.

(* Never stranded in the property's OWN accounting (BudgetSpec.v: requests transmitted, answered by the
   oldest-live rule, live for 2 seconds; independent of the library's counter and list): at every settled
   point the library's counter EQUALS the property's budget, so the oldest held message of an unblocked
   node does not fit the budget of the property text. Hypothesis quiet_gaps: the uplink messages processed
   between a clock change and the timer pass (at most one heartbeat period, 0.1 s, in the running library)
   answer no request. (An answer processed inside that window may be credited by the library to a request of
   expiry age not yet removed, by the property to the oldest live one; the two accountings then differ until
   that request expires, at most 2 s. C03_no_strand above has no such hypothesis.) *)
Theorem C03_no_strand_spec : forall es so now0,
  clock_mono now0 es = true -> timer_settled es = true -> quiet_gaps true es = true ->
  let '(t, now, spec) := spec_run [] so now0 es (fun _ => []) in
  forall a, n_held (get t a) <> [] -> unblocked t a ->
    exists ty m rest, n_held (get t a) = (ty, m) :: rest /\
                      outstanding_sum now (spec a) = n_used (get t a) /\
                      response_limit < outstanding_sum now (spec a) + resp_size ty.
Proof. exact no_strand_spec. Qed.
Print Assumptions C03_no_strand_spec.

(* with the timer firing right after every clock change there is no such window *)
Theorem C03_no_strand_spec_timer_follows : forall es so now0, clock_mono now0 es = true -> timer_follows es = true ->
  let '(t, now, spec) := spec_run [] so now0 es (fun _ => []) in
  forall a, n_held (get t a) <> [] -> unblocked t a ->
    exists ty m rest, n_held (get t a) = (ty, m) :: rest /\
                      outstanding_sum now (spec a) = n_used (get t a) /\
                      response_limit < outstanding_sum now (spec a) + resp_size ty.
Proof. exact no_strand_spec_follows. Qed.
Print Assumptions C03_no_strand_spec_timer_follows.

(* the timer pass by itself, from ANY table state: afterwards every node with a held message is limited
   by its counter or registered with a stalled ancestor-or-self *)
Theorem C03_timer_repairs : forall t now a,
  let t' := fst (on_expire t now) in
  n_held (get t' a) <> [] -> head_blocked_by_budget t' a \/ registered t' a.
Proof. exact (fun t now => on_expire_ns t now). Qed.
Print Assumptions C03_timer_repairs.

(* corollaries kept from before the repair: histories without a timer in which nothing expires *)
Theorem C03_no_strand_event_except : forall es so now0, forallb no_clock es = true ->
  let '(t, _, _, _, _) := tab_run [] so now0 es in
  forall a, n_held (get t a) <> [] -> unblocked t a -> head_blocked_by_budget t a.
Proof. exact no_strand_const_clock. Qed.
Print Assumptions C03_no_strand_event_except.

Theorem C03_no_strand_without_expiry : forall es so now0, young_run [] so now0 es = true ->
  let '(t, _, _, _, _) := tab_run [] so now0 es in
  forall a, n_held (get t a) <> [] -> unblocked t a -> head_blocked_by_budget t a.
Proof. exact no_strand_without_expiry. Qed.
Print Assumptions C03_no_strand_without_expiry.

(* non-vacuity: the history that was the refutation witness of the unrepaired library (known finding
   strand.lazy-expiry, now closed): 6 x SYS_GET_SW_VERSION (7 bytes each), 1 x SYS_GET_UNIQUE_ID (11)
   deferred, clock +5 s. Without the timer pass the message stays held although all six requests have
   expired (also after two spontaneous MSG_BM_FREE from the node); with it the message is handed over. *)
Definition c03_witness_old : list fev :=
  [FTime 1000; FSend (1,0,0) 6 []; FSend (1,0,0) 6 []; FSend (1,0,0) 6 []; FSend (1,0,0) 6 [];
   FSend (1,0,0) 6 []; FSend (1,0,0) 6 []; FSend (1,0,0) 5 []; FTime 1005;
   FUp [1] 161 0; FUp [1] 161 0].
Definition c03_witness : list fev :=
  [FTime 1000; FExpire; FSend (1,0,0) 6 []; FSend (1,0,0) 6 []; FSend (1,0,0) 6 []; FSend (1,0,0) 6 [];
   FSend (1,0,0) 6 []; FSend (1,0,0) 6 []; FSend (1,0,0) 5 []; FTime 1005; FExpire].
Example C03_no_strand_nonvacuous :
  (clock_mono 0 c03_witness = true /\ timer_follows c03_witness = true /\ timer_settled c03_witness = true) /\
  (let '(t, _, now, log, _) := tab_run [] true 0 c03_witness in
   heldm t [1] = [] /\ length (sent [1] log) = 7%nat /\ n_used (get t [1]) = 11 /\ strandedb t now [1] = false) /\
  (let '(t, _, now, log, _) := tab_run [] true 0 (firstn 10 c03_witness) in
   length (heldm t [1]) = 1%nat /\ n_used (get t [1]) = 42 /\ strandedb t now [1] = true) /\
  (timer_settled c03_witness_old = false /\
   let '(t, _, now, _, _) := tab_run [] true 0 c03_witness_old in strandedb t now [1] = true) /\
  (* the receiver dropped the expired requests itself (no retry); the late timer pass still releases *)
  (timer_settled (c03_witness_old ++ [FExpire]) = true /\ timer_follows (c03_witness_old ++ [FExpire]) = false /\
   let '(t, _, now, _, _) := tab_run [] true 0 (c03_witness_old ++ [FExpire]) in heldm t [1] = [] /\ strandedb t now [1] = false).
Proof. vm_compute. repeat split. Qed.

(* non-vacuity of the spec-level theorem: 32 + 11 bytes outstanding, a 13-byte request held (56 > 48), the clock
   moves 3 s, a MSG_BM_ADDRESS (answers nothing) is processed before the timer pass, the pass releases the held
   request; afterwards budget and counter are both 13. One second earlier nothing has expired: the request stays
   held and both are 43 *)
Example C03_no_strand_spec_nonvacuous :
  let es := [FTime 1000; FExpire; FSend (1,0,0) 22 [1]; FSend (1,0,0) 5 []; FSend (1,0,0) 12 [0;0]; FTime 1003; FUp [1] 163 0; FExpire] in
  (clock_mono 0 es = true /\ timer_settled es = true /\ quiet_gaps true es = true /\ timer_follows es = false) /\
  (let '(t, now, spec) := spec_run [] true 0 es (fun _ => []) in
   heldm t [1] = [] /\ outstanding_sum now (spec [1]) = 13 /\ n_used (get t [1]) = 13) /\
  (let '(t, now, spec) := spec_run [] true 0 [FTime 1000; FExpire; FSend (1,0,0) 22 [1]; FSend (1,0,0) 5 []; FSend (1,0,0) 12 [0;0]; FTime 1001; FExpire] (fun _ => []) in
   length (heldm t [1]) = 1%nat /\ outstanding_sum now (spec [1]) = 43 /\ n_used (get t [1]) = 43).
Proof. vm_compute. repeat split. Qed.

(* non-vacuity: a history with a deferral that is released by the matching answer *)
Example C03_budget_spec_nonvacuous :
  let es := [FTime 1000; FSend (1,0,0) 22 [1]; FSend (1,0,0) 5 []; FTime 1001; FUp [1] 132 0; FTime 1003] in
  clock_mono 0 es = true /\
  let '(t, now, spec) := spec_run [] true 0 es (fun _ => []) in
  outstanding_sum now (spec [1]) = 0 /\ n_used (get t [1]) = 43.
Proof. vm_compute. repeat split. Qed.

Example C03_nonvacuous :
  let es := [FTime 1000; FSend (1,0,0) 22 [1]; FSend (1,0,0) 23 [2]; FUp [1] 147 0] in
  let '(t, _, _, log, _) := tab_run [] true 0 es in
  length (sent [1] log) = 2%nat /\ heldm t [1] = [] /\ n_used (get t [1]) = 32.
Proof. vm_compute. repeat split. Qed.
