(* NoStrandProofs.v — the "never stranded" / "resume" invariant of NodeFlow.v (C03, C04):
   NS: every node with a held message is limited by its response counter or is registered as a waiter
   of a stalled ancestor-or-self (hence blocked).
   * NS is kept by every event as long as no outstanding request has reached the expiry age (CT);
   * the timer event FExpire establishes NS and CT from any state whose outstanding lists are in
     creation order (AS, an invariant of every history with a monotone clock);
   hence NS and CT hold at every point of a history at which the timer has fired since the last clock
   change (timer_settled), and there the counter equals the sum of the live requests. *)
From Coq Require Import List NArith Bool Arith Lia.
From LB Require Import Tables Framing NodeFlow NodeFlowProofs DispatchProofs BudgetSpec BudgetProofs.
Import ListNotations.
Local Open Scope N_scope.

Definition registered (t : table) (a : list N) : Prop :=
  exists p, In p (ancestors a) /\ n_stall (get t p) = true /\ In a (n_waiters (get t p)).

Definition NSnode (t : table) (a : list N) : Prop :=
  n_held (get t a) <> [] -> head_blocked_by_budget t a \/ registered t a.
Definition NS (t : table) : Prop := forall a, NSnode t a.

(* stall flags equal, waiter lists only grow *)
Definition wmono (t t' : table) : Prop :=
  forall p, n_stall (get t' p) = n_stall (get t p) /\ incl (n_waiters (get t p)) (n_waiters (get t' p)).

Lemma wmono_refl t : wmono t t. Proof. intros p. split; [reflexivity|apply incl_refl]. Qed.
Lemma wmono_trans t1 t2 t3 : wmono t1 t2 -> wmono t2 t3 -> wmono t1 t3.
Proof. intros A B p. destruct (A p) as [A1 A2], (B p) as [B1 B2]. split; [congruence|eapply incl_tran; eauto]. Qed.

Lemma registered_mono t t' a : wmono t t' -> registered t a -> registered t' a.
Proof. intros Hm (p & Hin & Hs & Hw). exists p. destruct (Hm p) as [A B]. split; [exact Hin|]. split; [congruence|apply B; exact Hw]. Qed.

Lemma registered_blocked t a : registered t a -> ~ unblocked t a.
Proof. intros (p & Hin & Hs & _) Hu. rewrite (Hu p Hin) in Hs. discriminate. Qed.

Lemma hbb_same t t' a : same_flow (get t a) (get t' a) -> head_blocked_by_budget t a -> head_blocked_by_budget t' a.
Proof. intros (A & B & C) (ty & m & rest & Hh & Hb). exists ty, m, rest. rewrite C, A. auto. Qed.

Lemma NSnode_mono t t' a : wmono t t' -> same_flow (get t a) (get t' a) -> NSnode t a -> NSnode t' a.
Proof.
  intros Hm Hf Hn Hh. destruct Hf as (A & B & C). rewrite C in Hh. destruct (Hn Hh) as [Hb|Hr].
  - left. eapply hbb_same; [|exact Hb]. repeat split; assumption.
  - right. eapply registered_mono; eauto.
Qed.

(* wmono through the primitive table updates *)
Lemma wmono_ensure t a : wmono t (ensure t a).
Proof. intros p. rewrite get_ensure. split; [reflexivity|apply incl_refl]. Qed.

Lemma wmono_store t a v : n_stall v = n_stall (get t a) -> incl (n_waiters (get t a)) (n_waiters v) -> wmono t (store t a v).
Proof.
  intros Hs Hw p. destruct (addr_eqb_spec a p) as [->|Hn].
  - rewrite get_store_same. auto.
  - rewrite get_store_other by exact Hn. split; [reflexivity|apply incl_refl].
Qed.

Lemma add_response_w v ty now : n_stall (add_response v ty now) = n_stall v /\ n_waiters (add_response v ty now) = n_waiters v.
Proof. unfold add_response. destruct (0 <? resp_size ty); split; reflexivity. Qed.

(* ---- stall_ready ---- *)
Lemma stall_ready_ns t a :
  let '(t', r) := stall_ready t a in
  wmono t t' /\ (forall b, same_flow (get t b) (get t' b)) /\ (r = true <-> unblocked t a) /\ (r = true -> t' = t) /\
  (r = false -> registered t' a).
Proof.
  pose proof (stall_ready_spec t a) as H. unfold stall_ready in *.
  destruct (find (is_stalled t) (ancestors a)) as [p|] eqn:E.
  - apply find_some in E as [Hin Hs]. rewrite is_stalled_get in Hs.
    destruct (existsb (addr_eqb a) (n_waiters (get t p))) eqn:Ex.
    + destruct H as (Hsame & Hr & Heq). split; [apply wmono_refl|]. split; [intros b; apply Hsame|]. split; [exact Hr|]. split; [exact Heq|].
      intros _. exists p. split; [exact Hin|]. split; [exact Hs|].
      apply existsb_exists in Ex as (x & Hx & Ex). destruct (addr_eqb_spec a x); [subst; exact Hx|discriminate].
    + destruct H as (Hsame & Hr & Heq). split; [|split; [intros b; apply Hsame|split; [exact Hr|split; [exact Heq|]]]].
      * apply wmono_store; [reflexivity|]. cbn [with_waiters n_waiters]. apply incl_appl, incl_refl.
      * intros _. exists p. split; [exact Hin|]. rewrite get_store_same. cbn [with_waiters n_stall n_waiters].
        split; [exact Hs|]. apply in_or_app. right. left. reflexivity.
  - destruct H as (Hsame & Hr & Heq). split; [apply wmono_refl|]. split; [intros b; apply Hsame|]. split; [exact Hr|]. split; [exact Heq|discriminate].
Qed.

(* ---- try_send ---- *)
Lemma try_send_ns t a ty m now : NS t -> NS (fst (try_send t a ty m now)) /\ wmono t (fst (try_send t a ty m now)).
Proof.
  intros Hns. unfold try_send.
  pose proof (stall_ready_ns (ensure t a) a) as Hs.
  destruct (stall_ready (ensure t a) a) as [t2 ready]. destruct Hs as (Hm2 & Hf2 & Hr & _ & Hreg).
  assert (Hm02 : wmono t t2) by (eapply wmono_trans; [apply wmono_ensure|exact Hm2]).
  assert (Hf02 : forall b, same_flow (get t b) (get t2 b)) by (intros b; specialize (Hf2 b); rewrite get_ensure in Hf2; exact Hf2).
  assert (Hns2 : NS t2) by (intros b; eapply NSnode_mono; [exact Hm02|apply Hf02|apply Hns]).
  destruct (ready && match n_held (get t2 a) with [] => true | _ => false end &&
            (n_used (get t2 a) + resp_size ty <=? response_limit)) eqn:E; cbn [fst].
  - (* admitted: held stays empty *)
    apply andb_true_iff in E as [E _]. apply andb_true_iff in E as [_ Eh].
    assert (Hm3 : wmono t2 (store t2 a (add_response (get t2 a) ty now))).
    { destruct (add_response_w (get t2 a) ty now) as [A B]. apply wmono_store; [exact A|rewrite B; apply incl_refl]. }
    split; [|eapply wmono_trans; eauto].
    intros b. destruct (addr_eqb_spec a b) as [<-|Hn].
    + intros Hh. rewrite get_store_same, add_response_held in Hh. destruct (n_held (get t2 a)); [congruence|discriminate].
    + eapply NSnode_mono; [exact Hm3| |apply Hns2]. rewrite get_store_other by exact Hn. apply same_flow_refl.
  - (* deferred *)
    set (v' := with_flow (get t2 a) (n_used (get t2 a)) (n_resp (get t2 a)) (n_held (get t2 a) ++ [(ty, m)])).
    assert (Hm3 : wmono t2 (store t2 a v')) by (apply wmono_store; [reflexivity|apply incl_refl]).
    split; [|eapply wmono_trans; eauto].
    intros b. destruct (addr_eqb_spec a b) as [<-|Hn].
    + intros _. destruct (n_held (get t2 a)) as [|[ty0 m0] rest] eqn:Eh.
      * (* was empty: deferred because not ready or does not fit *)
        destruct ready.
        -- cbn [andb] in E. apply N.leb_gt in E. left. exists ty, m, []. rewrite get_store_same. unfold v'. cbn [with_flow n_held n_used].
           split; [reflexivity|exact E].
        -- right. eapply registered_mono; [exact Hm3|]. apply Hreg. reflexivity.
      * (* head unchanged *)
        assert (Hne : n_held (get t2 a) <> []) by (rewrite Eh; discriminate).
        destruct (Hns2 a Hne) as [(ty1 & m1 & r1 & Hh1 & Hb1)|Hr1].
        -- left. rewrite Eh in Hh1. injection Hh1 as <- <- <-. exists ty0, m0, (rest ++ [(ty, m)]). rewrite get_store_same. unfold v'. cbn [with_flow n_held n_used]. auto.
        -- right. eapply registered_mono; eauto.
    + eapply NSnode_mono; [exact Hm3| |apply Hns2]. rewrite get_store_other by exact Hn. apply same_flow_refl.
Qed.

(* ---- try_queued ---- *)
Lemma try_queued_loop_ns fuel : forall t a now acc,
  (length (n_held (get t a)) < fuel)%nat ->
  let t' := fst (try_queued_loop fuel t a now acc) in
  wmono t t' /\ (forall b, b <> a -> same_flow (get t b) (get t' b)) /\ NSnode t' a.
Proof.
  induction fuel as [|f IH]; intros t a now acc Hlen; [lia|]. cbn [try_queued_loop].
  pose proof (stall_ready_ns t a) as Hs. destruct (stall_ready t a) as [t1 ready].
  destruct Hs as (Hm1 & Hf1 & Hr & Heq & Hreg).
  destruct ready.
  - specialize (Heq eq_refl). subst t1.
    destruct (n_held (get t a)) as [|[ty m] rest] eqn:Eh.
    + cbn [fst]. split; [apply wmono_refl|]. split; [intros; apply same_flow_refl|]. intros Hh. congruence.
    + destruct (n_used (get t a) + resp_size ty <=? response_limit) eqn:E.
      * set (v1 := add_response (with_flow (get t a) (n_used (get t a)) (n_resp (get t a)) rest) ty now).
        assert (Hm2 : wmono t (store t a v1)).
        { unfold v1. destruct (add_response_w (with_flow (get t a) (n_used (get t a)) (n_resp (get t a)) rest) ty now) as [A B].
          apply wmono_store; [rewrite A; reflexivity|rewrite B; apply incl_refl]. }
        specialize (IH (store t a v1) a now (acc ++ [(ty, m)])).
        destruct IH as (Hm3 & Hf3 & Hn3).
        { rewrite get_store_same. unfold v1. rewrite add_response_held. cbn [with_flow n_held]. cbn in Hlen. lia. }
        split; [eapply wmono_trans; eauto|]. split; [|exact Hn3].
        intros b Hb. eapply same_flow_trans; [|apply Hf3; exact Hb]. rewrite get_store_other by congruence. apply same_flow_refl.
      * apply N.leb_gt in E. cbn [fst]. split; [apply wmono_refl|]. split; [intros; apply same_flow_refl|].
        intros _. left. exists ty, m, rest. auto.
  - cbn [fst]. split; [exact Hm1|]. split; [intros b _; apply Hf1|]. intros _. right. apply Hreg. reflexivity.
Qed.

Lemma try_queued_ns t a now :
  let t' := fst (try_queued t a now) in
  wmono t t' /\ (forall b, b <> a -> same_flow (get t b) (get t' b)) /\ NSnode t' a.
Proof.
  unfold try_queued.
  pose proof (try_queued_loop_ns (S (length (n_held (get t a)))) t a now [] (Nat.lt_succ_diag_r _)) as H.
  destruct (try_queued_loop _ t a now []) as [t1 ms]. exact H.
Qed.

Lemma try_queued_keeps_NS t a now : NS t -> NS (fst (try_queued t a now)).
Proof.
  intros Hns. destruct (try_queued_ns t a now) as (Hm & Hf & Hn). intros b.
  destruct (addr_eqb_spec b a) as [->|Hb]; [exact Hn|]. eapply NSnode_mono; [exact Hm|apply Hf; exact Hb|apply Hns].
Qed.

(* ---- creation times: as long as every outstanding request is younger than the expiry time, no
        request ever expires (a constant clock is the special case) ---- *)
Definition young (now c : N) : Prop := now - c < expiry_secs.
Definition CT (t : table) (now : N) : Prop := forall a e, In e (n_resp (get t a)) -> young now (snd e).

Lemma young_now now : young now now.
Proof. unfold young. rewrite N.sub_diag. reflexivity. Qed.

Lemma upd_loop_noexp fuel : forall i v rty now, (forall e, In e (n_resp v) -> young now (snd e)) ->
  upd_loop fuel i v rty now = (v, false) \/ upd_loop fuel i v rty now = (pop_resp v, true).
Proof.
  induction fuel as [|f IH]; intros i v rty now Hct; cbn [upd_loop]; [left; reflexivity|].
  destruct (n_resp v) as [|[ty c] rest] eqn:E; [left; reflexivity|].
  destruct (i <=? info_cnt ty); [|left; reflexivity].
  destruct (info_at ty i =? rty); [right; reflexivity|].
  assert (Hy : young now c) by (apply (Hct (ty, c)); try rewrite E; left; reflexivity).
  assert (Hx : (expiry_secs <=? now - c) = false) by (apply N.leb_gt; exact Hy).
  rewrite Hx. apply IH. rewrite E. exact Hct.
Qed.

Lemma CT_store t a v now : CT t now -> (forall e, In e (n_resp v) -> young now (snd e)) -> CT (store t a v) now.
Proof.
  intros Hc Hv b e. destruct (addr_eqb_spec a b) as [->|Hn].
  - rewrite get_store_same. apply Hv.
  - rewrite get_store_other by exact Hn. apply Hc.
Qed.

Lemma CT_same t t' now : (forall b, n_resp (get t' b) = n_resp (get t b)) -> CT t now -> CT t' now.
Proof. intros H Hc b e. rewrite H. apply Hc. Qed.

Definition RO (now : N) (v : node) : Prop := forall e, In e (n_resp v) -> young now (snd e).
Lemma CT_RO t now : CT t now <-> forall a, RO now (get t a).
Proof. unfold CT, RO. split; intros H a; apply H. Qed.

Lemma RO_new now : RO now new_node. Proof. intros e []. Qed.
Lemma RO_add v ty now : RO now v -> RO now (add_response v ty now).
Proof.
  intros H. unfold add_response. destruct (0 <? resp_size ty); [|exact H].
  intros e Hin. cbn [with_flow n_resp] in Hin. apply in_app_or in Hin as [Hin|[<-|[]]]; [apply H; exact Hin|apply young_now].
Qed.
Lemma RO_pop v now : RO now v -> RO now (pop_resp v).
Proof.
  intros H. unfold pop_resp. destruct (n_resp v) as [|[ty c] rest] eqn:E; [exact H|].
  intros e Hin. cbn [with_flow n_resp] in Hin. apply H. rewrite E. right. exact Hin.
Qed.
Lemma RO_resp_eq v v' now : n_resp v' = n_resp v -> RO now v -> RO now v'.
Proof. intros E H e. rewrite E. apply H. Qed.

Lemma CT_nil now : CT [] now. Proof. intros a e. unfold get; cbn. intros []. Qed.
Lemma CT_ensure t a now : CT t now -> CT (ensure t a) now.
Proof. intros H b e. rewrite get_ensure. apply H. Qed.
Lemma CT_store' t a v now : CT t now -> RO now v -> CT (store t a v) now.
Proof. intros H Hv. apply CT_store; assumption. Qed.

Lemma CT_stall_ready t a now : CT t now -> CT (fst (stall_ready t a)) now.
Proof.
  intros H. pose proof (stall_ready_ns t a) as Hs. destruct (stall_ready t a) as [t' r]. destruct Hs as (_ & Hf & _).
  cbn [fst]. intros b e. destruct (Hf b) as (_ & B & _). rewrite B. apply H.
Qed.

Lemma CT_try_send t a ty m now : CT t now -> CT (fst (try_send t a ty m now)) now.
Proof.
  intros H. unfold try_send. pose proof (CT_stall_ready (ensure t a) a now (CT_ensure t a now H)) as H2.
  destruct (stall_ready (ensure t a) a) as [t2 ready]. cbn [fst] in H2.
  destruct (ready && _ && _); cbn [fst]; apply CT_store'; try exact H2.
  - apply RO_add. apply CT_RO. exact H2.
  - eapply RO_resp_eq; [|apply CT_RO; exact H2]. reflexivity.
Qed.

Lemma CT_try_queued_loop fuel : forall t a now acc, CT t now -> CT (fst (try_queued_loop fuel t a now acc)) now.
Proof.
  induction fuel as [|f IH]; intros t a now acc H; cbn [try_queued_loop]; [exact H|].
  pose proof (CT_stall_ready t a now H) as H1. destruct (stall_ready t a) as [t1 ready]. cbn [fst] in H1.
  destruct ready; [|exact H1]. destruct (n_held (get t1 a)) as [|[ty m] rest]; [exact H1|].
  destruct (n_used (get t1 a) + resp_size ty <=? response_limit); [|exact H1].
  apply IH. apply CT_store'; [exact H1|]. apply RO_add. eapply RO_resp_eq; [|apply CT_RO; exact H1]. reflexivity.
Qed.

Lemma CT_try_queued t a now : CT t now -> CT (fst (try_queued t a now)) now.
Proof.
  intros H. unfold try_queued. pose proof (CT_try_queued_loop (S (length (n_held (get t a)))) t a now [] H) as H1.
  destruct (try_queued_loop _ t a now []) as [t1 ms]. exact H1.
Qed.

Definition no_clock (e : fev) : bool := match e with FTime _ => false | _ => true end.

(* ---- predicates on the outstanding list that every table operation preserves: closed under dropping
        the head and under appending a request created now ---- *)
Section RespClosed.
Variable P : N -> list (N * N) -> Prop.
Hypothesis Pnil : forall now, P now [].
Hypothesis Ptail : forall now e q, P now (e :: q) -> P now q.
Hypothesis Padd : forall now q ty, P now q -> P now (q ++ [(ty, now)]).

Definition PT (t : table) (now : N) : Prop := forall b, P now (n_resp (get t b)).

Lemma P_transmitted now es : forall q, P now q -> P now (q ++ transmitted now es).
Proof.
  unfold transmitted. induction es as [|e r IH]; intros q H; cbn [filter map]; [rewrite app_nil_r; exact H|].
  destruct (0 <? resp_size (fst e)); [|apply IH; exact H]. cbn [map].
  replace (q ++ (fst e, now) :: map (fun e0 : N * list N => (fst e0, now)) (filter (fun e0 : N * list N => 0 <? resp_size (fst e0)) r))
    with ((q ++ [(fst e, now)]) ++ map (fun e0 : N * list N => (fst e0, now)) (filter (fun e0 : N * list N => 0 <? resp_size (fst e0)) r))
    by (rewrite <- app_assoc; reflexivity).
  apply IH. apply Padd. exact H.
Qed.

Lemma P_pop v now : P now (n_resp v) -> P now (n_resp (pop_resp v)).
Proof.
  intros H. unfold pop_resp. destruct (n_resp v) as [|[ty c] rest] eqn:E; [rewrite E; exact H|].
  cbn [with_flow n_resp]. eapply Ptail. exact H.
Qed.

Lemma P_upd_loop fuel : forall i v rty now, P now (n_resp v) -> P now (n_resp (fst (upd_loop fuel i v rty now))).
Proof.
  induction fuel as [|f IH]; intros i v rty now H; cbn [upd_loop]; [exact H|].
  destruct (n_resp v) as [|[ty c] rest] eqn:E; [cbn [fst]; rewrite E; exact H|].
  assert (Hp : P now (n_resp (pop_resp v))) by (apply P_pop; rewrite E; exact H).
  assert (Hv : P now (n_resp v)) by (rewrite E; exact H).
  destruct (i <=? info_cnt ty); [|exact Hv].
  destruct (info_at ty i =? rty); [exact Hp|].
  destruct (expiry_secs <=? now - c).
  - destruct rest; [exact Hp|]. apply IH. exact Hp.
  - apply IH. exact Hv.
Qed.

Lemma P_reap_q q : forall u now, P now q -> P now (fst (reap_q q u now)).
Proof.
  induction q as [|[ty c] rest IH]; intros u now H; cbn [reap_q]; [exact H|].
  destruct (expiry_secs <=? now - c); [|exact H]. apply IH. eapply Ptail. exact H.
Qed.

Lemma P_reap v now : P now (n_resp v) -> P now (n_resp (reap v now)).
Proof.
  intros H. unfold reap. pose proof (P_reap_q (n_resp v) (n_used v) now H) as H1.
  destruct (reap_q (n_resp v) (n_used v) now) as [q u]. exact H1.
Qed.

Lemma PT_same t t' now : (forall b, n_resp (get t' b) = n_resp (get t b)) -> PT t now -> PT t' now.
Proof. intros E H b. rewrite E. apply H. Qed.

Lemma PT_store t a v now : PT t now -> P now (n_resp v) -> PT (store t a v) now.
Proof.
  intros H Hv b. destruct (addr_eqb_spec a b) as [->|Hn].
  - rewrite get_store_same. exact Hv.
  - rewrite get_store_other by exact Hn. apply H.
Qed.

Lemma PT_try_send t a ty m now : PT t now -> PT (fst (try_send t a ty m now)) now.
Proof.
  intros H. pose proof (try_send_resp t a ty m now) as Hs. destruct (try_send t a ty m now) as [t' ok]. cbn [fst].
  intros b. rewrite Hs. destruct (ok && addr_eqb b a); [apply P_transmitted|rewrite app_nil_r]; apply H.
Qed.

Lemma PT_try_queued t a now : PT t now -> PT (fst (try_queued t a now)) now.
Proof.
  intros H. pose proof (try_queued_resp t a now) as Hq. destruct (try_queued t a now) as [t' gs]. cbn [fst].
  destruct Hq as [_ Hq]. intros b. rewrite Hq. apply P_transmitted. apply H.
Qed.

Lemma PT_on_update t a rty now : PT t now -> PT (fst (on_update t a rty now)) now.
Proof.
  intros H. unfold on_update. destruct (lookup t a) as [v|] eqn:El; [|exact H].
  assert (Hv : P now (n_resp v)) by (rewrite <- (lookup_get t a v El); apply H).
  destruct (n_resp v) eqn:Er; [exact H|]. rewrite <- Er in Hv.
  pose proof (P_upd_loop 8 2 v rty now Hv) as Hu. destruct (upd_loop 8 2 v rty now) as [v1 matched]. cbn [fst] in Hu.
  destruct matched; [apply PT_try_queued|cbn [fst]]; apply PT_store; assumption.
Qed.

Lemma PT_on_stall t a st now : PT t now -> PT (fst (on_stall t a st now)) now.
Proof.
  intros H. pose proof (on_stall_resp t a st now) as Hs. destruct (on_stall t a st now) as [t' gs]. cbn [fst].
  intros b. rewrite Hs. apply P_transmitted. apply H.
Qed.

Lemma PT_expire_loop ks : forall t now acc, PT t now -> PT (fst (expire_loop ks t now acc)) now.
Proof.
  induction ks as [|a r IH]; intros t now acc H; cbn [expire_loop]; [exact H|].
  assert (H1 : PT (store t a (reap (get t a) now)) now) by (apply PT_store; [exact H|apply P_reap, H]).
  destruct (head_fits (reap (get t a) now)); [|apply IH; exact H1].
  pose proof (PT_try_queued _ a now H1) as H2. destruct (try_queued (store t a (reap (get t a) now)) a now) as [t2 o].
  apply IH. exact H2.
Qed.

Lemma alloc_sseq_resp t a b : n_resp (get (fst (alloc_sseq t a)) b) = n_resp (get t b).
Proof.
  unfold alloc_sseq. cbn [fst]. destruct (addr_eqb_spec a b) as [<-|Hn].
  - rewrite get_store_same, get_ensure. reflexivity.
  - rewrite get_store_other by exact Hn. rewrite get_ensure. reflexivity.
Qed.

(* every event except a clock change *)
Lemma PT_step t so now e : (forall n, e <> FTime n) -> PT t now ->
  let '(t1, _, _, _, _) := tab_step t so now e in PT t1 now.
Proof.
  intros Hnt H. destruct e as [a3 ty data|a rty last|n| |c|b| |]; cbn [tab_step]; try exact H.
  - unfold submit_tab.
    assert (H1 : PT (fst (if so then alloc_sseq t (canon a3) else (t, 0))) now).
    { destruct so; [|exact H]. eapply PT_same; [intros b; apply alloc_sseq_resp|exact H]. }
    destruct (if so then alloc_sseq t (canon a3) else (t, 0)) as [t1 sq]. cbn [fst] in H1.
    destruct (encode_msg a3 sq ty data) as [m|]; [|exact H].
    pose proof (PT_try_send t1 (canon a3) ty m now H1) as H2. destruct (try_send t1 (canon a3) ty m now) as [t2 ok]. exact H2.
  - unfold uplink_tab. pose proof (PT_on_update t a rty now H) as H1. destruct (on_update t a rty now) as [t1 g1]. cbn [fst] in H1.
    destruct (rty =? MSG_STALL); [|exact H1].
    pose proof (PT_on_stall t1 a last now H1) as H2. destruct (on_stall t1 a last now) as [t2 g2]. exact H2.
  - intros b. unfold get; cbn. apply Pnil.
  - unfold on_expire. pose proof (PT_expire_loop (map fst t) t now [] H) as H1.
    destruct (expire_loop (map fst t) t now []) as [t1 gs]. exact H1.
Qed.
End RespClosed.

(* instance 1: no outstanding request has reached the expiry age *)
Lemma young_tail now (e : N * N) q : (forall x, In x (e :: q) -> young now (snd x)) -> forall x, In x q -> young now (snd x).
Proof. intros H x Hx. apply H. right. exact Hx. Qed.
Lemma young_add now q (ty : N) : (forall x, In x q -> young now (snd x)) -> forall x, In x (q ++ [(ty, now)]) -> young now (snd x).
Proof. intros H x Hx. apply in_app_or in Hx as [Hx|[<-|[]]]; [apply H; exact Hx|apply young_now]. Qed.

Lemma CT_PT t now : CT t now <-> PT (fun now q => forall x, In x q -> young now (snd x)) t now.
Proof. unfold CT, PT. split; intros H a; apply H. Qed.

Lemma CT_step t so now e : (forall n, e <> FTime n) -> CT t now ->
  let '(t1, _, _, _, _) := tab_step t so now e in CT t1 now.
Proof.
  intros Hnt H. apply CT_PT in H.
  pose proof (PT_step (fun now q => forall x, In x q -> young now (snd x)) (fun _ _ F => match F with end) young_tail young_add t so now e Hnt H) as H1.
  destruct (tab_step t so now e) as [[[[t1 s1] n1] g1] o1]. apply CT_PT. exact H1.
Qed.

(* instance 2: the outstanding requests are in creation order, none created after now *)
Fixpoint asc (lo : N) (q : list (N * N)) (now : N) : Prop :=
  match q with
  | [] => lo <= now
  | e :: r => lo <= snd e /\ asc (snd e) r now
  end.

Lemma asc_weaken lo lo' q now : lo' <= lo -> asc lo q now -> asc lo' q now.
Proof. destruct q as [|e r]; cbn [asc]; [lia|]. intros H [A B]. split; [lia|exact B]. Qed.

Lemma asc_bounds q : forall lo now, asc lo q now -> lo <= now /\ forall x, In x q -> lo <= snd x /\ snd x <= now.
Proof.
  induction q as [|e r IH]; intros lo now H; cbn [asc] in H; [split; [exact H|intros x []]|].
  destruct H as [A B]. destruct (IH _ _ B) as [C D]. split; [lia|].
  intros x [<-|Hx]; [lia|]. destruct (D x Hx). lia.
Qed.

Lemma asc_add q : forall lo now (ty : N), asc lo q now -> asc lo (q ++ [(ty, now)]) now.
Proof.
  induction q as [|e r IH]; intros lo now ty H; cbn [asc app] in *.
  - cbn [snd]. split; [exact H|lia].
  - destruct H as [A B]. split; [exact A|apply IH; exact B].
Qed.

Lemma asc_later lo q : forall now n, now <= n -> asc lo q now -> asc lo q n.
Proof.
  revert lo. induction q as [|e r IH]; intros lo now n Hn H; cbn [asc] in *; [lia|].
  destruct H as [A B]. split; [exact A|eapply IH; eauto].
Qed.

Definition AS (t : table) (now : N) : Prop := forall a, asc 0 (n_resp (get t a)) now.
Lemma AS_PT t now : AS t now <-> PT (fun now q => asc 0 q now) t now.
Proof. unfold AS, PT. split; intros H a; apply H. Qed.

Lemma AS_nil now : AS [] now.
Proof. intros a. unfold get; cbn. apply N.le_0_l. Qed.

Lemma AS_step t so now e : clock_mono_step now e = true -> AS t now ->
  let '(t1, _, now1, _, _) := tab_step t so now e in AS t1 now1.
Proof.
  intros Hm H. destruct (no_clock e) eqn:E.
  - assert (Hnt : forall n, e <> FTime n) by (intros n ->; discriminate).
    apply AS_PT in H.
    pose proof (PT_step (fun now q => asc 0 q now) (fun now => N.le_0_l now)
                  (fun now e q (F : asc 0 (e :: q) now) => asc_weaken (snd e) 0 q now (N.le_0_l _) (proj2 F))
                  (fun now q ty F => asc_add q 0 now ty F) t so now e Hnt H) as H1.
    pose proof (tab_step_now t so now e) as Hn.
    destruct (tab_step t so now e) as [[[[t1 s1] n1] g1] o1]. subst n1.
    destruct e; try discriminate; apply AS_PT; exact H1.
  - destruct e; try discriminate. cbn [tab_step]. cbn [clock_mono_step] in Hm. apply N.leb_le in Hm.
    intros a. eapply asc_later; [exact Hm|apply H].
Qed.

(* creation order makes "the head is young" mean "all are young": what the timer leaves behind *)
Lemma reap_q_young q : forall u now, asc 0 q now -> forall x, In x (fst (reap_q q u now)) -> young now (snd x).
Proof.
  induction q as [|[ty c] rest IH]; intros u now H x Hx; cbn [reap_q] in Hx; [destruct Hx|].
  destruct (expiry_secs <=? now - c) eqn:Ex.
  - cbn [asc snd] in H. eapply IH; [|exact Hx]. eapply asc_weaken; [apply N.le_0_l|exact (proj2 H)].
  - apply N.leb_gt in Ex. cbn [fst] in Hx. cbn [asc snd] in H. destruct H as [_ H].
    unfold young. destruct Hx as [<-|Hx]; [exact Ex|].
    destruct (asc_bounds _ _ _ H) as [_ Hb]. destruct (Hb x Hx). lia.
Qed.

Lemma reap_young v now : asc 0 (n_resp v) now -> RO now (reap v now).
Proof.
  intros H. unfold RO, reap. pose proof (reap_q_young (n_resp v) (n_used v) now H) as H1.
  destruct (reap_q (n_resp v) (n_used v) now) as [q u]. exact H1.
Qed.

(* ---- on_update without expiry ---- *)
Lemma on_update_ns t a rty now : NS t -> CT t now ->
  NS (fst (on_update t a rty now)) /\ CT (fst (on_update t a rty now)) now.
Proof.
  intros Hns Hct. unfold on_update. destruct (lookup t a) as [v|] eqn:El; [|split; assumption].
  destruct (n_resp v) as [|e0 l0] eqn:Er; [split; assumption|].
  assert (Hgv : get t a = v) by (apply lookup_get; exact El).
  assert (Hro : RO now v) by (rewrite <- Hgv; apply CT_RO; exact Hct).
  destruct (upd_loop_noexp 8 2 v rty now Hro) as [E|E]; rewrite E.
  - (* nothing changed *)
    assert (Hsame : forall b, get (store t a v) b = get t b).
    { intros b. destruct (addr_eqb_spec a b) as [<-|Hn]; [rewrite get_store_same; symmetry; exact Hgv|apply get_store_other; exact Hn]. }
    cbn [fst]. split.
    + intros b. eapply NSnode_mono; [| |apply Hns].
      * intros p. rewrite Hsame. split; [reflexivity|apply incl_refl].
      * rewrite Hsame. apply same_flow_refl.
    + intros b e. rewrite Hsame. apply Hct.
  - (* matched: the head is popped and the held queue retried *)
    set (t1 := store t a (pop_resp v)).
    assert (Hm1 : wmono t t1).
    { apply wmono_store; rewrite Hgv; destruct (pop_resp_ctl v) as [(A & _) _]; [exact A|].
      unfold pop_resp. destruct (n_resp v) as [|[ty c] r]; apply incl_refl. }
    assert (Hct1 : CT t1 now) by (apply CT_store'; [exact Hct|apply RO_pop; exact Hro]).
    split; [|apply CT_try_queued; exact Hct1].
    destruct (try_queued_ns t1 a now) as (Hm & Hf & Hn). intros b.
    destruct (addr_eqb_spec b a) as [->|Hb]; [exact Hn|].
    eapply NSnode_mono; [eapply wmono_trans; [exact Hm1|exact Hm]| |apply Hns].
    eapply same_flow_trans; [|apply Hf; exact Hb]. unfold t1. rewrite get_store_other by congruence. apply same_flow_refl.
Qed.

(* ---- release_waiters: every registered waiter is retried ---- *)
Lemma release_waiters_ns ws : forall t now acc,
  (forall b, n_held (get t b) <> [] -> head_blocked_by_budget t b \/ registered t b \/ In b ws) -> CT t now ->
  NS (fst (release_waiters ws t now acc)) /\ CT (fst (release_waiters ws t now acc)) now.
Proof.
  induction ws as [|w r IH]; intros t now acc Hinv Hct; cbn [release_waiters].
  - split; [|exact Hct]. intros b Hh. destruct (Hinv b Hh) as [H|[H|[]]]; auto.
  - destruct (lookup t w) as [vw|] eqn:El.
    + pose proof (try_queued_ns t w now) as Hq. pose proof (CT_try_queued t w now Hct) as Hc1.
      destruct (try_queued t w now) as [t1 o]. cbn [fst] in Hq, Hc1. destruct Hq as (Hm & Hf & Hn).
      apply IH; [|exact Hc1]. intros b Hh.
      destruct (addr_eqb_spec b w) as [->|Hb].
      * destruct (Hn Hh) as [H|H]; auto.
      * destruct (Hf b Hb) as (A & B & C). rewrite C in Hh. destruct (Hinv b Hh) as [H|[H|[H|H]]].
        -- left. eapply hbb_same; [|exact H]. repeat split; assumption.
        -- right. left. eapply registered_mono; eauto.
        -- congruence.
        -- right. right. exact H.
    + apply IH; [|exact Hct]. intros b Hh. destruct (Hinv b Hh) as [H|[H|[H|H]]]; auto.
      exfalso. subst w. unfold get in Hh. rewrite El in Hh. cbn in Hh. congruence.
Qed.

(* ---- on_stall ---- *)
Lemma on_stall_ns t a st now : NS t -> CT t now ->
  NS (fst (on_stall t a st now)) /\ CT (fst (on_stall t a st now)) now.
Proof.
  intros Hns Hct. unfold on_stall. set (t1 := ensure t a).
  assert (Hct1 : CT t1 now) by (apply CT_ensure; exact Hct).
  destruct (st =? 0).
  - set (v2 := with_waiters (with_stall (get t1 a) false) []).
    set (t2 := store t1 a v2).
    assert (Hct2 : CT t2 now).
    { apply CT_store'; [exact Hct1|]. eapply RO_resp_eq; [|apply CT_RO; exact Hct1]. reflexivity. }
    apply release_waiters_ns; [|exact Hct2].
    intros b Hh.
    assert (Hfb : same_flow (get t b) (get t2 b)).
    { unfold t2. destruct (addr_eqb_spec a b) as [<-|Hn].
      - rewrite get_store_same. unfold v2, t1. rewrite get_ensure. repeat split.
      - rewrite get_store_other by exact Hn. unfold t1. rewrite get_ensure. apply same_flow_refl. }
    destruct Hfb as (A & B & C). rewrite C in Hh. destruct (Hns b Hh) as [H|(p & Hin & Hs & Hw)].
    + left. eapply hbb_same; [|exact H]. repeat split; assumption.
    + destruct (addr_eqb_spec a p) as [<-|Hn].
      * right. right. unfold t1. rewrite get_ensure. exact Hw.
      * right. left. exists p. split; [exact Hin|]. unfold t2. rewrite get_store_other by exact Hn. unfold t1. rewrite get_ensure. auto.
  - cbn [fst]. set (v2 := with_stall (get t1 a) true).
    split.
    + intros b Hh.
      assert (Hfb : same_flow (get t b) (get (store t1 a v2) b)).
      { destruct (addr_eqb_spec a b) as [<-|Hn].
        - rewrite get_store_same. unfold v2, t1. rewrite get_ensure. repeat split.
        - rewrite get_store_other by exact Hn. unfold t1. rewrite get_ensure. apply same_flow_refl. }
      destruct Hfb as (A & B & C). rewrite C in Hh. destruct (Hns b Hh) as [H|(p & Hin & Hs & Hw)].
      * left. eapply hbb_same; [|exact H]. repeat split; assumption.
      * right. exists p. split; [exact Hin|]. destruct (addr_eqb_spec a p) as [<-|Hn].
        -- rewrite get_store_same. unfold v2, t1. cbn [with_stall n_stall n_waiters]. rewrite get_ensure. auto.
        -- rewrite get_store_other by exact Hn. unfold t1. rewrite get_ensure. auto.
    + apply CT_store'; [exact Hct1|]. eapply RO_resp_eq; [|apply CT_RO; exact Hct1]. reflexivity.
Qed.

(* ---- the timer establishes NS whatever the state before (in particular after the receiver dropped
        expired requests without retrying the held queue) ---- *)
Lemma head_fits_false_hbb t a : head_fits (get t a) = false -> NSnode t a.
Proof.
  unfold head_fits. intros Hf Hh. destruct (n_held (get t a)) as [|[ty m] rest] eqn:E; [congruence|].
  apply N.leb_gt in Hf. left. exists ty, m, rest. auto.
Qed.

Lemma expire_loop_ns ks : forall t now acc,
  (forall b, NSnode t b \/ In b ks) -> NS (fst (expire_loop ks t now acc)).
Proof.
  induction ks as [|a r IH]; intros t now acc Hinv; cbn [expire_loop].
  - intros b. destruct (Hinv b) as [H|[]]. exact H.
  - set (v := reap (get t a) now). set (t1 := store t a v).
    destruct (reap_ctl (get t a) now) as ((Rs & _) & Rh & Rw). fold v in Rs, Rh, Rw.
    assert (Hm1 : wmono t t1) by (apply wmono_store; [exact Rs|rewrite Rw; apply incl_refl]).
    assert (Hoth : forall b, b <> a -> NSnode t b -> NSnode t1 b).
    { intros b Hb. apply NSnode_mono; [exact Hm1|]. unfold t1. rewrite get_store_other by congruence. apply same_flow_refl. }
    destruct (head_fits v) eqn:Ef.
    + pose proof (try_queued_ns t1 a now) as Hq. destruct (try_queued t1 a now) as [t2 o]. cbn [fst] in Hq.
      destruct Hq as (Hm & Hf & Hn). apply IH. intros b.
      destruct (addr_eqb_spec b a) as [->|Hb]; [left; exact Hn|].
      destruct (Hinv b) as [H|[H|H]]; [left|congruence|right; exact H].
      eapply NSnode_mono; [exact Hm|apply Hf; exact Hb|apply Hoth; assumption].
    + apply IH. intros b.
      destruct (addr_eqb_spec b a) as [->|Hb].
      * left. apply head_fits_false_hbb. unfold t1. rewrite get_store_same. exact Ef.
      * destruct (Hinv b) as [H|[H|H]]; [left; apply Hoth; assumption|congruence|right; exact H].
Qed.

Lemma lookup_keys t a v : lookup t a = Some v -> In a (map fst t).
Proof.
  induction t as [|[k w] r IH]; cbn [lookup map fst]; [discriminate|].
  destruct (addr_eqb_spec k a) as [->|Hn]; [left; reflexivity|]. intros E. right. apply IH. exact E.
Qed.

Lemma on_expire_ns t now : NS (fst (on_expire t now)).
Proof.
  unfold on_expire. apply expire_loop_ns. intros b. destruct (lookup t b) as [v|] eqn:E.
  - right. eapply lookup_keys. exact E.
  - left. intros Hh. unfold get in Hh. rewrite E in Hh. cbn in Hh. congruence.
Qed.

(* ... and, the lists being in creation order, leaves no request of expiry age behind *)
Lemma expire_loop_ct ks : forall t now acc, AS t now ->
  (forall b, RO now (get t b) \/ In b ks) -> CT (fst (expire_loop ks t now acc)) now.
Proof.
  induction ks as [|a r IH]; intros t now acc Has Hinv; cbn [expire_loop].
  - apply CT_RO. intros b. destruct (Hinv b) as [H|[]]. exact H.
  - set (v := reap (get t a) now). set (t1 := store t a v).
    assert (Hv : RO now v) by (apply reap_young, Has).
    assert (Has1 : AS t1 now).
    { apply AS_PT. apply PT_store; [apply AS_PT; exact Has|]. unfold v.
      apply (P_reap (fun now q => asc 0 q now)); [|apply Has].
      intros now' e q F. eapply asc_weaken; [apply N.le_0_l|exact (proj2 F)]. }
    assert (H1 : forall b, RO now (get t1 b) \/ In b r).
    { intros b. unfold t1. destruct (addr_eqb_spec a b) as [<-|Hn].
      - left. rewrite get_store_same. exact Hv.
      - rewrite get_store_other by exact Hn. destruct (Hinv b) as [H|[H|H]]; [left; exact H|congruence|right; exact H]. }
    destruct (head_fits v); [|apply IH; assumption].
    pose proof (try_queued_resp t1 a now) as Hq.
    assert (Has2 : AS (fst (try_queued t1 a now)) now).
    { apply AS_PT. apply (PT_try_queued (fun now q => asc 0 q now)); [|apply AS_PT; exact Has1].
      intros now' q ty F. apply asc_add. exact F. }
    destruct (try_queued t1 a now) as [t2 o]. cbn [fst] in Has2. destruct Hq as [_ Hq].
    apply IH; [exact Has2|]. intros b. destruct (H1 b) as [H|H]; [left|right; exact H].
    unfold RO. rewrite Hq.
    apply (P_transmitted (fun now q => forall x, In x q -> young now (snd x)) young_add). exact H.
Qed.

Lemma on_expire_ct t now : AS t now -> CT (fst (on_expire t now)) now.
Proof.
  intros Has. unfold on_expire. apply expire_loop_ct; [exact Has|]. intros b. destruct (lookup t b) as [v|] eqn:E.
  - right. eapply lookup_keys. exact E.
  - left. unfold RO, get. rewrite E. intros e [].
Qed.

(* ---- steps and histories with a constant clock ---- *)
Lemma alloc_sseq_ns t a now : NS t -> CT t now -> NS (fst (alloc_sseq t a)) /\ CT (fst (alloc_sseq t a)) now.
Proof.
  intros Hns Hct. unfold alloc_sseq. cbn [fst]. set (t1 := ensure t a).
  set (v := with_sseq (get t1 a) (seq_next (n_sseq (get t1 a)))).
  assert (Hsame : forall b, same_flow (get t b) (get (store t1 a v) b) /\
                            n_stall (get (store t1 a v) b) = n_stall (get t b) /\ n_waiters (get (store t1 a v) b) = n_waiters (get t b)).
  { intros b. destruct (addr_eqb_spec a b) as [<-|Hn].
    - rewrite get_store_same. unfold v, t1. rewrite get_ensure. repeat split.
    - rewrite get_store_other by exact Hn. unfold t1. rewrite get_ensure. repeat split. }
  split.
  - intros b. eapply NSnode_mono; [|apply Hsame|apply Hns].
    intros p. destruct (Hsame p) as (_ & A & B). split; [exact A|rewrite B; apply incl_refl].
  - intros b e. destruct (Hsame b) as ((_ & B & _) & _). rewrite B. apply Hct.
Qed.

Lemma tab_step_ns t so now e : no_clock e = true -> NS t -> CT t now ->
  let '(t1, _, now1, _, _) := tab_step t so now e in NS t1 /\ CT t1 now1 /\ now1 = now.
Proof.
  intros Hnc Hns Hct. destruct e as [a3 ty data|a rty last|n| |c|b| |]; cbn [tab_step]; try discriminate; try (split; [exact Hns|split; [exact Hct|reflexivity]]).
  - unfold submit_tab.
    assert (H1 : NS (fst (if so then alloc_sseq t (canon a3) else (t, 0))) /\ CT (fst (if so then alloc_sseq t (canon a3) else (t, 0))) now).
    { destruct so; [apply alloc_sseq_ns; assumption|split; assumption]. }
    destruct (if so then alloc_sseq t (canon a3) else (t, 0)) as [t1 sq]. cbn [fst] in H1. destruct H1 as [Hns1 Hct1].
    destruct (encode_msg a3 sq ty data) as [m|]; [|split; [exact Hns|split; [exact Hct|reflexivity]]].
    pose proof (try_send_ns t1 (canon a3) ty m now Hns1) as [Hns2 _]. pose proof (CT_try_send t1 (canon a3) ty m now Hct1) as Hct2.
    destruct (try_send t1 (canon a3) ty m now) as [t2 ok]. cbn [fst] in *. auto.
  - unfold uplink_tab. pose proof (on_update_ns t a rty now Hns Hct) as [Hns1 Hct1].
    destruct (on_update t a rty now) as [t1 g1]. cbn [fst] in *.
    destruct (rty =? MSG_STALL).
    + pose proof (on_stall_ns t1 a last now Hns1 Hct1) as [Hns2 Hct2]. destruct (on_stall t1 a last now) as [t2 g2]. cbn [fst] in *. auto.
    + auto.
  - split; [|split; [apply CT_nil|reflexivity]]. intros a Hh. unfold get in Hh; cbn in Hh. congruence.
  - pose proof (on_expire_ns t now) as H1.
    pose proof (CT_step t so now FExpire ltac:(discriminate) Hct) as H2. cbn [tab_step] in H2.
    destruct (on_expire t now) as [t1 gs]. cbn [fst] in H1. auto.
Qed.

Lemma tab_run_ns es : forall t so now, forallb no_clock es = true -> NS t -> CT t now ->
  let '(t1, _, _, _, _) := tab_run t so now es in NS t1.
Proof.
  induction es as [|e r IH]; intros t so now Hnc Hns Hct; cbn [tab_run]; [exact Hns|].
  cbn [forallb] in Hnc. apply andb_true_iff in Hnc as [He Hr].
  pose proof (tab_step_ns t so now e He Hns Hct) as H1.
  destruct (tab_step t so now e) as [[[[t1 s1] n1] g1] o1]. destruct H1 as (Hns1 & Hct1 & ->).
  specialize (IH t1 s1 now Hr Hns1 Hct1). destruct (tab_run t1 s1 now r) as [[[[t2 s2] n2] g2] o2]. exact IH.
Qed.

(* ---- histories with a moving clock in which no request reaches the expiry age ---- *)
Definition all_youngb (t : table) (n : N) : bool :=
  forallb (fun kv : addr * node => forallb (fun e : N * N => n - snd e <? expiry_secs) (n_resp (snd kv))) t.

Lemma lookup_in t a v : lookup t a = Some v -> exists k, In (k, v) t.
Proof.
  induction t as [|[k w] r IH]; cbn [lookup]; [discriminate|].
  destruct (addr_eqb k a).
  - intros E. injection E as <-. exists k. left. reflexivity.
  - intros E. destruct (IH E) as [k' Hk]. exists k'. right. exact Hk.
Qed.

Lemma all_youngb_CT t n : all_youngb t n = true -> CT t n.
Proof.
  intros H a e Hin. unfold get in Hin. destruct (lookup t a) as [v|] eqn:E; [|destruct Hin].
  destruct (lookup_in t a v E) as [k Hk]. unfold all_youngb in H. rewrite forallb_forall in H.
  specialize (H (k, v) Hk). cbn [snd] in H. rewrite forallb_forall in H. specialize (H e Hin).
  apply N.ltb_lt in H. exact H.
Qed.

(* at every clock event all outstanding requests are still younger than the expiry time at the new time *)
Fixpoint young_run (t : table) (so : bool) (now : N) (es : list fev) : bool :=
  match es with
  | [] => true
  | e :: r => (match e with FTime n => all_youngb t n | _ => true end) &&
              (let '(t1, s1, n1, _, _) := tab_step t so now e in young_run t1 s1 n1 r)
  end.

Lemma tab_step_ns_gen t so now e : (forall n, e = FTime n -> CT t n) -> NS t -> CT t now ->
  let '(t1, _, now1, _, _) := tab_step t so now e in NS t1 /\ CT t1 now1.
Proof.
  intros Hf Hns Hct. destruct (no_clock e) eqn:E.
  - pose proof (tab_step_ns t so now e E Hns Hct) as H.
    destruct (tab_step t so now e) as [[[[t1 s1] n1] g1] o1]. destruct H as (A & B & ->). split; assumption.
  - destruct e as [a3 ty data|a rty last|n| |c|b| |]; try discriminate. cbn [tab_step]. split; [exact Hns|apply Hf; reflexivity].
Qed.

Lemma tab_run_ns_young es : forall t so now, young_run t so now es = true -> NS t -> CT t now ->
  let '(t1, _, _, _, _) := tab_run t so now es in NS t1.
Proof.
  induction es as [|e r IH]; intros t so now Hy Hns Hct; cbn [tab_run]; [exact Hns|].
  cbn [young_run] in Hy. apply andb_true_iff in Hy as [He Hr].
  assert (Hf : forall n, e = FTime n -> CT t n).
  { intros n ->. apply all_youngb_CT. exact He. }
  pose proof (tab_step_ns_gen t so now e Hf Hns Hct) as H1.
  destruct (tab_step t so now e) as [[[[t1 s1] n1] g1] o1]. destruct H1 as (Hns1 & Hct1).
  specialize (IH t1 s1 n1 Hr Hns1 Hct1). destruct (tab_run t1 s1 n1 r) as [[[[t2 s2] n2] g2] o2]. exact IH.
Qed.

(* a history without clock events is one without expiry *)
Lemma no_clock_young es : forall t so now, forallb no_clock es = true -> young_run t so now es = true.
Proof.
  induction es as [|e r IH]; intros t so now H; cbn [young_run]; [reflexivity|].
  cbn [forallb] in H. apply andb_true_iff in H as [He Hr].
  destruct (tab_step t so now e) as [[[[t1 s1] n1] g1] o1]. rewrite (IH t1 s1 n1 Hr).
  destruct e; try discriminate; reflexivity.
Qed.

Lemma NS_nil : NS [].
Proof. intros a Hh. unfold get in Hh; cbn in Hh. congruence. Qed.

(* The never-stranded / resume theorem: after any history with a constant clock, a node that holds a
   message and has no stalled ancestor-or-self is limited by its response budget. *)
Theorem no_strand_const_clock es so now0 : forallb no_clock es = true ->
  let '(t, _, _, _, _) := tab_run [] so now0 es in
  forall a, n_held (get t a) <> [] -> unblocked t a -> head_blocked_by_budget t a.
Proof.
  intros Hnc. pose proof (tab_run_ns es [] so now0 Hnc NS_nil (CT_nil now0)) as H.
  destruct (tab_run [] so now0 es) as [[[[t s] n] g] o]. intros a Hh Hu.
  destruct (H a Hh) as [Hb|Hr]; [exact Hb|]. exfalso. exact (registered_blocked t a Hr Hu).
Qed.

(* The same for every history in which no request reaches the expiry age (the clock may move): exactly
   the histories outside the known finding strand.lazy-expiry. *)
Theorem no_strand_without_expiry es so now0 : young_run [] so now0 es = true ->
  let '(t, _, _, _, _) := tab_run [] so now0 es in
  forall a, n_held (get t a) <> [] -> unblocked t a -> head_blocked_by_budget t a.
Proof.
  intros Hy. pose proof (tab_run_ns_young es [] so now0 Hy NS_nil (CT_nil now0)) as H.
  destruct (tab_run [] so now0 es) as [[[[t s] n] g] o]. intros a Hh Hu.
  destruct (H a Hh) as [Hb|Hr]; [exact Hb|]. exfalso. exact (registered_blocked t a Hr Hu).
Qed.

(* ---- histories with the timer ----
   timer_settled: the heartbeat thread's expiry pass (FExpire) has run since the last clock change.
   In the running library the pass follows a change of time(NULL) within one heartbeat period (0.1 s);
   other events may come in between (the receiver may even drop expired requests itself without
   retrying the held queue): the pass repairs that. *)
Definition settle_step (f : bool) (e : fev) : bool :=
  match e with FTime _ => false | FExpire => true | FReset => true | _ => f end.
Fixpoint settled_from (f : bool) (es : list fev) : bool :=
  match es with [] => f | e :: r => settled_from (settle_step f e) r end.
Definition timer_settled (es : list fev) : bool := settled_from true es.

Definition TI (f : bool) (t : table) (now : N) : Prop :=
  tab_ok t /\ AS t now /\ (f = true -> NS t /\ CT t now).

Lemma tab_step_ti f t so now e : clock_mono_step now e = true -> TI f t now ->
  let '(t1, _, now1, _, _) := tab_step t so now e in TI (settle_step f e) t1 now1.
Proof.
  intros Hm (Hok & Has & Hf).
  pose proof (tab_step_ok t so now e Hok) as H1. pose proof (AS_step t so now e Hm Has) as H2.
  assert (H3 : let '(t1, _, now1, _, _) := tab_step t so now e in settle_step f e = true -> NS t1 /\ CT t1 now1).
  { assert (Hgen : no_clock e = true -> settle_step f e = f ->
                   let '(t1, _, now1, _, _) := tab_step t so now e in settle_step f e = true -> NS t1 /\ CT t1 now1).
    { intros Hnc Hse. rewrite Hse. destruct f.
      - destruct (Hf eq_refl) as [Hns Hct]. pose proof (tab_step_ns t so now e Hnc Hns Hct) as H.
        destruct (tab_step t so now e) as [[[[t1 s1] n1] g1] o1]. destruct H as (A & B & ->). intros _. split; assumption.
      - destruct (tab_step t so now e) as [[[[t1 s1] n1] g1] o1]. discriminate. }
    destruct e as [a3 ty data|a rty last|n| |c|b| |]; try (apply Hgen; reflexivity).
    - cbn [tab_step settle_step]. discriminate.
    - cbn [tab_step settle_step]. intros _. split; [apply NS_nil|apply CT_nil].
    - cbn [tab_step settle_step]. pose proof (on_expire_ns t now) as A. pose proof (on_expire_ct t now Has) as B.
      destruct (on_expire t now) as [t1 gs]. intros _. split; assumption. }
  destruct (tab_step t so now e) as [[[[t1 s1] n1] g1] o1]. split; [exact H1|]. split; [exact H2|exact H3].
Qed.

Lemma tab_run_ti es : forall f t so now, clock_mono now es = true -> TI f t now ->
  let '(t1, _, now1, _, _) := tab_run t so now es in TI (settled_from f es) t1 now1.
Proof.
  induction es as [|e r IH]; intros f t so now Hc Hi; cbn [tab_run settled_from]; [exact Hi|].
  cbn [clock_mono] in Hc. apply andb_true_iff in Hc as [Hc1 Hc2].
  pose proof (tab_step_ti f t so now e Hc1 Hi) as H1. pose proof (tab_step_now t so now e) as Hn.
  destruct (tab_step t so now e) as [[[[t1 s1] n1] g1] o1]. subst n1.
  specialize (IH (settle_step f e) t1 s1 _ Hc2 H1).
  destruct (tab_run t1 s1 _ r) as [[[[t2 s2] n2] g2] o2]. exact IH.
Qed.

Lemma TI_init now : TI true [] now.
Proof. split; [apply tab_ok_nil|]. split; [apply AS_nil|]. intros _. split; [apply NS_nil|apply CT_nil]. Qed.

Lemma live_sum_young now v : RO now v -> live_sum now v = sumsz (n_resp v).
Proof.
  unfold RO, live_sum. induction (n_resp v) as [|e r IH]; intros H; [reflexivity|]. cbn [filter].
  assert (E : (now - snd e <? expiry_secs) = true) by (apply N.ltb_lt; apply (H e); left; reflexivity).
  rewrite E. cbn [sumsz]. f_equal. apply IH. intros x Hx. apply H. right. exact Hx.
Qed.

(* The never-stranded clause of C03 in the property's words: after every history with a monotone clock,
   at every point at which the timer has fired since the last clock change, a node that holds a message and
   has no stalled ancestor-or-self has no room for the oldest held message in its budget of LIVE requests
   (those not answered and younger than the expiry time). *)
Theorem no_strand_timer es so now0 : clock_mono now0 es = true -> timer_settled es = true ->
  let '(t, _, now, _, _) := tab_run [] so now0 es in
  forall a, n_held (get t a) <> [] -> unblocked t a ->
    exists ty m rest, n_held (get t a) = (ty, m) :: rest /\ response_limit < live_sum now (get t a) + resp_size ty.
Proof.
  intros Hc Hs. pose proof (tab_run_ti es true [] so now0 Hc (TI_init now0)) as H. unfold timer_settled in Hs. rewrite Hs in H.
  destruct (tab_run [] so now0 es) as [[[[t s] n] g] o]. destruct H as (Hok & _ & Hf). destruct (Hf eq_refl) as [Hns Hct].
  intros a Hh Hu. destruct (Hns a Hh) as [(ty & m & rest & Eh & Hb)|Hr]; [|exfalso; exact (registered_blocked t a Hr Hu)].
  exists ty, m, rest. split; [exact Eh|]. rewrite live_sum_young by (apply CT_RO; exact Hct).
  destruct (Hok a) as [<- _]. exact Hb.
Qed.

(* the same in executable form: no node is stranded *)
Theorem no_strand_timer_b es so now0 : clock_mono now0 es = true -> timer_settled es = true ->
  let '(t, _, now, _, _) := tab_run [] so now0 es in forall a, strandedb t now a = false.
Proof.
  intros Hc Hs. pose proof (no_strand_timer es so now0 Hc Hs) as H.
  destruct (tab_run [] so now0 es) as [[[[t s] n] g] o]. intros a. unfold strandedb.
  destruct (n_held (get t a)) as [|[ty m] rest] eqn:Eh; [reflexivity|].
  destruct (forallb (fun p => negb (n_stall (get t p))) (ancestors a)) eqn:Ef; [|reflexivity]. cbn [andb].
  assert (Hu : unblocked t a).
  { intros p Hp. rewrite forallb_forall in Ef. specialize (Ef p Hp). apply negb_true_iff in Ef. exact Ef. }
  destruct (H a) as (ty' & m' & rest' & E' & Hb); [rewrite Eh; discriminate|exact Hu|].
  rewrite Eh in E'. injection E' as <- <- <-. apply N.leb_gt. exact Hb.
Qed.

(* the invariant behind it, for C04: waiters of stalled nodes *)
Theorem waiters_timer es so now0 : clock_mono now0 es = true -> timer_settled es = true ->
  let '(t, _, _, _, _) := tab_run [] so now0 es in
  forall a, n_held (get t a) <> [] -> head_blocked_by_budget t a \/ registered t a.
Proof.
  intros Hc Hs. pose proof (tab_run_ti es true [] so now0 Hc (TI_init now0)) as H. unfold timer_settled in Hs. rewrite Hs in H.
  destruct (tab_run [] so now0 es) as [[[[t s] n] g] o]. destruct H as (_ & _ & Hf). destruct (Hf eq_refl) as [Hns _]. exact Hns.
Qed.

Theorem resume_timer es so now0 : clock_mono now0 es = true -> timer_settled es = true ->
  let '(t, _, _, _, _) := tab_run [] so now0 es in
  forall a, n_held (get t a) <> [] -> unblocked t a -> head_blocked_by_budget t a.
Proof.
  intros Hc Hs. pose proof (waiters_timer es so now0 Hc Hs) as H.
  destruct (tab_run [] so now0 es) as [[[[t s] n] g] o]. intros a Hh Hu.
  destruct (H a Hh) as [Hb|Hr]; [exact Hb|exfalso; exact (registered_blocked t a Hr Hu)].
Qed.

(* the special case checked against the implementation: the timer fires immediately after every clock
   change (harness: `time n` = FTime n; FExpire); every prefix not ending in a clock change is settled *)
Fixpoint timer_follows (es : list fev) : bool :=
  match es with
  | [] => true
  | FTime _ :: r => match r with FExpire :: _ => timer_follows r | _ => false end
  | _ :: r => timer_follows r
  end.

Lemma timer_follows_settled es : forall f, timer_follows es = true ->
  (f = true \/ exists r, es = FExpire :: r) -> settled_from f es = true.
Proof.
  induction es as [|e r IH]; intros f Ht Hf; cbn [settled_from].
  - destruct Hf as [->|(r & E)]; [reflexivity|discriminate].
  - destruct e as [a3 ty data|a rty last|n| |c|b| |]; cbn [settle_step timer_follows] in *;
      try (destruct Hf as [->|(r0 & E)]; [apply IH; [exact Ht|left; reflexivity]|discriminate]).
    + destruct r as [|e' r']; [discriminate|]. destruct e'; try discriminate. apply IH; [exact Ht|]. right. eexists. reflexivity.
    + apply IH; [exact Ht|left; reflexivity].
Qed.

Theorem no_strand_timer_follows es so now0 : clock_mono now0 es = true -> timer_follows es = true ->
  let '(t, _, now, _, _) := tab_run [] so now0 es in
  forall a, n_held (get t a) <> [] -> unblocked t a ->
    exists ty m rest, n_held (get t a) = (ty, m) :: rest /\ response_limit < live_sum now (get t a) + resp_size ty.
Proof.
  intros Hc Ht. apply no_strand_timer; [exact Hc|]. apply timer_follows_settled; [exact Ht|left; reflexivity].
Qed.
