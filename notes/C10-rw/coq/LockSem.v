(* LockSem.v — interleaving semantics of threads whose programs are action lists (the paths of the
   translated functions), with mutexes / write locks exclusive and read locks shared (the mode of every
   held lock is part of the thread state; a write access needs its guard held exclusively), and the two
   meta-theorems behind C11: the invariant established by the checker is preserved by every step, and
   in every reachable configuration with an unfinished thread some thread can step (no deadlock). *)
From Coq Require Import List Arith Bool Lia PeanoNat.
From LB Require Import LockLang.
Import ListNotations.

Section Sem.
Variable rank : nat -> nat.
Variable guard : nat -> option nat.

(* a thread: the locks it holds, each with its mode (LockLang.held), and the actions still to do *)
Record thread := { th_held : held; th_prog : list act }.
Definition config := list thread.

(* lock ids held in any mode / held exclusively *)
Definition locks_of (H : held) : list nat := map fst H.
Definition wlocks_of (H : held) : list nat := map fst (filter snd H).
Definition th_locks (t : thread) : list nat := locks_of (th_held t).
Definition th_w (t : thread) : list nat := wlocks_of (th_held t).

Definition holds_any (c : config) (l : nat) : Prop := exists t, In t c /\ In l (th_locks t).
Definition holds_w (c : config) (l : nat) : Prop := exists t, In t c /\ In l (th_w t).

(* exclusive acquisition (mutex / wrlock) needs the lock completely free, shared acquisition (rdlock)
   needs it free of exclusive holders; accesses need the guard in a sufficient mode (act_ok) *)
Inductive tstep (c : config) : thread -> thread -> Prop :=
| s_acq_w : forall H l p H', ~ holds_any c l -> act_ok rank guard H (AAcq l true) = Some H' ->
    tstep c {| th_held := H; th_prog := AAcq l true :: p |} {| th_held := H'; th_prog := p |}
| s_acq_r : forall H l p H', ~ holds_w c l -> act_ok rank guard H (AAcq l false) = Some H' ->
    tstep c {| th_held := H; th_prog := AAcq l false :: p |} {| th_held := H'; th_prog := p |}
| s_rel : forall H l p H', act_ok rank guard H (ARel l) = Some H' ->
    tstep c {| th_held := H; th_prog := ARel l :: p |} {| th_held := H'; th_prog := p |}
| s_acc : forall H g wr p, act_ok rank guard H (AAcc g wr) = Some H ->
    tstep c {| th_held := H; th_prog := AAcc g wr :: p |} {| th_held := H; th_prog := p |}.

Inductive step : config -> config -> Prop :=
| step_at : forall pre t t' post, tstep (pre ++ t :: post) t t' -> step (pre ++ t :: post) (pre ++ t' :: post).

(* what the checker establishes for every thread: its remaining program is acceptable from the locks
   it holds (in the modes it holds them) and ends with none held *)
Definition th_ok (t : thread) : Prop :=
  acts_ok rank guard (th_held t) (th_prog t) = Some [].
Definition Inv (c : config) : Prop := Forall th_ok c.

Definition unfinished (c : config) : Prop := exists t, In t c /\ th_prog t <> [].

Lemma wlocks_incl H x : In x (wlocks_of H) -> In x (locks_of H).
Proof.
  unfold wlocks_of, locks_of. intros Hx. apply in_map_iff in Hx as (e & <- & He). apply filter_In in He as [He _].
  apply in_map. exact He.
Qed.

Lemma in_locks H l : In l (locks_of H) <-> exists w, In (l, w) H.
Proof.
  unfold locks_of. rewrite in_map_iff. split.
  - intros ([l' w] & E & Hin). cbn in E. subst. exists w. exact Hin.
  - intros (w & Hin). exists (l, w). split; [reflexivity|exact Hin].
Qed.
Lemma in_wlocks H l : In l (wlocks_of H) <-> In (l, true) H.
Proof.
  unfold wlocks_of. rewrite in_map_iff. split.
  - intros ([l' w] & E & Hin). cbn in E. subst. apply filter_In in Hin as [Hin Hw]. cbn in Hw. subst. exact Hin.
  - intros Hin. exists (l, true). split; [reflexivity|]. apply filter_In. split; [exact Hin|reflexivity].
Qed.

Lemma remove1_incl l H x : In x (remove1 l H) -> In x H.
Proof. clear rank guard. induction H as [|h t IH]; cbn; [tauto|]. destruct (Nat.eqb l (fst h)); cbn; tauto. Qed.

Lemma in_insert e H x : In x (insert e H) <-> x = e \/ In x H.
Proof.
  clear rank guard. induction H as [|h t IH]; cbn; [intuition|]. destruct (Nat.leb (fst e) (fst h)); cbn; [intuition|].
  rewrite IH. intuition.
Qed.

Lemma in_remove1_other l H x : fst x <> l -> In x H -> In x (remove1 l H).
Proof.
  clear rank guard. intros Hn. induction H as [|h t IH]; cbn; [tauto|]. destruct (Nat.eqb_spec l (fst h)) as [->|Hlh].
  - intros [E|Hin]; [subst; congruence|exact Hin].
  - intros [E|Hin]; [left; exact E|right; apply IH; exact Hin].
Qed.

Theorem preservation c c' : Inv c -> step c c' -> Inv c'.
Proof.
  intros Hinv Hs. destruct Hs as [pre t t' post Hts]. unfold Inv in *.
  apply Forall_app in Hinv as [Hpre Hrest]. inversion Hrest as [|? ? Ht Hpost]; subst.
  apply Forall_app. split; [exact Hpre|]. constructor; [|exact Hpost].
  unfold th_ok in *.
  inversion Hts as [H l p H' Hfree Ha|H l p H' Hfree Ha|H l p H' Ha|H g wr p Ha]; subst;
    cbn [th_held th_prog] in *; cbn [acts_ok] in Ht; rewrite Ha in Ht; exact Ht.
Qed.

(* ---- progress ---- *)
Definition waits (t : thread) (l : nat) : Prop := exists w p, th_prog t = AAcq l w :: p.

Lemma max_wait (ts : list thread) :
  (forall t, In t ts -> exists l, waits t l) -> ts <> [] ->
  exists t l, In t ts /\ waits t l /\ forall t' l', In t' ts -> waits t' l' -> rank l' <= rank l.
Proof.
  induction ts as [|t ts IH]; [congruence|]. intros Hw _.
  destruct (Hw t (or_introl eq_refl)) as [l Hl].
  assert (Huniq : forall l', waits t l' -> l' = l).
  { intros l' (w' & p' & Hp'). destruct Hl as (w & p & Hp). rewrite Hp in Hp'. injection Hp' as -> _ _. reflexivity. }
  destruct ts as [|t2 ts'].
  - exists t, l. split; [left; reflexivity|]. split; [exact Hl|]. intros t' l' [<-|[]] Hw'. rewrite (Huniq l' Hw'). lia.
  - destruct IH as (tm & lm & Hin & Hwm & Hmax); [intros; apply Hw; right; assumption|congruence|].
    destruct (le_lt_dec (rank l) (rank lm)) as [Hle|Hlt].
    + exists tm, lm. split; [right; exact Hin|]. split; [exact Hwm|]. intros t' l' [<-|Hin'] Hw'.
      * rewrite (Huniq l' Hw'). exact Hle.
      * eapply Hmax; eauto.
    + exists t, l. split; [left; reflexivity|]. split; [exact Hl|]. intros t' l' [<-|Hin'] Hw'.
      * rewrite (Huniq l' Hw'). lia.
      * specialize (Hmax _ _ Hin' Hw'). lia.
Qed.

Lemma acts_ok_rank H l w p : acts_ok rank guard H (AAcq l w :: p) <> None ->
  forall h, In h (locks_of H) -> rank h < rank l.
Proof.
  cbn [acts_ok act_ok]. destruct (forallb (fun h => Nat.ltb (rank (fst h)) (rank l)) H) eqn:E; [|congruence].
  intros _ h Hin. rewrite forallb_forall in E. apply in_locks in Hin as (w' & Hin). apply Nat.ltb_lt. apply (E _ Hin).
Qed.

Theorem progress (c : config) : Inv c -> unfinished c -> exists c', step c c'.
Proof.
  intros Hinv (t0 & Hin0 & Hne0). unfold Inv in Hinv. rewrite Forall_forall in Hinv.
  (* if some thread's next action is not a blocked acquire, it steps *)
  assert (Hstep : forall t, In t c ->
            (exists l w p, th_prog t = AAcq l w :: p /\ (if w then ~ holds_any c l else ~ holds_w c l)) \/
            (exists l p, th_prog t = ARel l :: p) \/ (exists g wr p, th_prog t = AAcc g wr :: p) -> exists c', step c c').
  { intros t Hin Hcase. destruct (in_split _ _ Hin) as (pre & post & ->). pose proof (Hinv t Hin) as Hok. unfold th_ok in Hok.
    destruct t as [H prog]. cbn [th_prog th_held] in *.
    destruct Hcase as [(l & w & p & -> & Hfree)|[(l & p & ->)|(g & wr & p & ->)]]; cbn [acts_ok] in Hok.
    - destruct (act_ok rank guard H (AAcq l w)) as [H'|] eqn:Ea; [|discriminate].
      destruct w; eexists; apply step_at; [eapply s_acq_w|eapply s_acq_r]; eauto.
    - destruct (act_ok rank guard H (ARel l)) as [H'|] eqn:Ea; [|discriminate].
      eexists. apply step_at. eapply s_rel. exact Ea.
    - destruct (act_ok rank guard H (AAcc g wr)) as [H'|] eqn:Ea; [|discriminate].
      assert (H' = H). { cbn [act_ok] in Ea. destruct (guard g); [destruct (holds_for _ _ H); [|discriminate]|]; congruence. }
      subst H'. eexists. apply step_at. eapply s_acc. exact Ea. }
  destruct (th_prog t0) as [|a0 p0] eqn:Ep0; [congruence|].
  (* collect unfinished threads *)
  set (U := filter (fun t => match th_prog t with [] => false | _ => true end) c).
  assert (HU : forall t, In t U <-> In t c /\ th_prog t <> []).
  { intros t. unfold U. rewrite filter_In. split; intros [Hc Hp]; split; auto; destruct (th_prog t); congruence. }
  (* either some unfinished thread has a release/access at its head, or all wait on acquires *)
  destruct (Exists_dec (fun t => match th_prog t with ARel _ :: _ | AAcc _ _ :: _ => True | _ => False end) U) as [Hex|Hall].
  { intros t. destruct (th_prog t) as [|[l w|l|g wr] p]; auto. }
  - apply Exists_exists in Hex as (t & Ht & Hhead). apply HU in Ht as [Htc _].
    apply (Hstep t Htc). destruct (th_prog t) as [|[l w|l|g wr] p]; try contradiction; [right; left|right; right]; eauto.
  - assert (Hwait : forall t, In t U -> exists l, waits t l).
    { intros t Ht. pose proof Ht as Ht'. apply HU in Ht' as [Htc Hp].
      destruct (th_prog t) as [|[l w|l|g wr] p] eqn:E.
      - congruence.
      - exists l, w, p. exact E.
      - exfalso. apply Hall. apply Exists_exists. exists t. split; [exact Ht|rewrite E; exact I].
      - exfalso. apply Hall. apply Exists_exists. exists t. split; [exact Ht|rewrite E; exact I]. }
    assert (HUne : U <> []).
    { intro E. assert (In t0 U) by (apply HU; split; [exact Hin0|congruence]). rewrite E in H. contradiction. }
    destruct (max_wait U Hwait HUne) as (tm & lm & Htm & (wm & pm & Hpm) & Hmax).
    apply HU in Htm as [Htmc _].
    (* tm can step unless lm is held by some thread t' *)
    assert (Hblocked_contra : forall t', In t' c -> In lm (th_locks t') -> False).
    { intros t' Ht'c Hlm. pose proof (Hinv t' Ht'c) as Hok'. unfold th_ok in Hok'.
      assert (Ht'U : In t' U).
      { apply HU. split; [exact Ht'c|]. intro E. rewrite E in Hok'. cbn in Hok'. injection Hok' as E'.
        unfold th_locks in Hlm. rewrite E' in Hlm. contradiction. }
      destruct (Hwait t' Ht'U) as (l' & w' & p' & Hp').
      assert (Hr : rank lm < rank l').
      { apply (acts_ok_rank (th_held t') l' w' p'); [rewrite <- Hp', Hok'; discriminate|exact Hlm]. }
      specialize (Hmax t' l' Ht'U (ex_intro _ w' (ex_intro _ p' Hp'))). lia. }
    apply (Hstep tm Htmc). left. exists lm, wm, pm. split; [exact Hpm|].
    destruct wm.
    + intros (t' & Ht'c & Hl). exact (Hblocked_contra t' Ht'c Hl).
    + intros (t' & Ht'c & Hl). exact (Hblocked_contra t' Ht'c (wlocks_incl _ _ Hl)).
Qed.

(* every step consumes one action: executions are finite *)
Definition remaining (c : config) : nat := fold_right (fun t n => length (th_prog t) + n) 0 c.

Lemma remaining_app a b : remaining (a ++ b) = remaining a + remaining b.
Proof. induction a as [|t r IH]; cbn; [reflexivity|]. unfold remaining in *. cbn. rewrite IH. lia. Qed.

Theorem step_decreases c c' : step c c' -> remaining c' < remaining c.
Proof.
  intros Hs. destruct Hs as [pre t t' post Hts]. rewrite !remaining_app. unfold remaining at 2 4. cbn [fold_right].
  fold (remaining post). inversion Hts; subst; cbn [th_prog length]; lia.
Qed.

End Sem.

(* ---- reachability and the initial configurations built from checked paths ---- *)
Section Reach.
Variable rank : nat -> nat.
Variable guard : nat -> option nat.

Inductive reach : config -> config -> Prop :=
| reach_refl : forall c, reach c c
| reach_step : forall c c1 c2, step rank guard c c1 -> reach c1 c2 -> reach c c2.

Lemma Inv_reach c c' : Inv rank guard c -> reach c c' -> Inv rank guard c'.
Proof. intros Hi Hr. induction Hr as [c|c c1 c2 Hs _ IH]; [exact Hi|]. apply IH. eapply preservation; eauto. Qed.

(* a thread that runs, one after the other, paths each of which is acceptable from the empty lock set *)
Lemma acts_ok_concat (ps : list (list act)) :
  Forall (fun p => acts_ok rank guard [] p = Some []) ps -> acts_ok rank guard [] (concat ps) = Some [].
Proof.
  induction 1 as [|p r Hp _ IH]; [reflexivity|]. cbn [concat]. rewrite acts_ok_app, Hp. exact IH.
Qed.

Definition fresh_thread (ps : list (list act)) : thread := {| th_held := []; th_prog := concat ps |}.

Lemma Inv_initial (tps : list (list (list act))) :
  Forall (Forall (fun p => acts_ok rank guard [] p = Some [])) tps ->
  Inv rank guard (map fresh_thread tps).
Proof.
  intros H. unfold Inv. rewrite Forall_map. eapply Forall_impl; [|exact H].
  intros ps Hps. unfold th_ok. cbn. apply acts_ok_concat. exact Hps.
Qed.

Lemma reach_trans c1 c2 c3 : reach c1 c2 -> reach c2 c3 -> reach c1 c3.
Proof. induction 1 as [c|c c' c'' Hs _ IH]; [tauto|]. intros H3. eapply reach_step; [exact Hs|apply IH; exact H3]. Qed.

(* a thread can run any acceptable prefix of its program on its own while all other threads hold no
   lock (used to exhibit reachable configurations in the non-vacuity examples) *)
Lemma solo_run (pre0 post0 : config) (p rest : list act) : forall H H',
  (forall t, In t (pre0 ++ post0) -> th_held t = []) ->
  acts_ok rank guard H p = Some H' ->
  reach (pre0 ++ {| th_held := H; th_prog := p ++ rest |} :: post0)
        (pre0 ++ {| th_held := H'; th_prog := rest |} :: post0).
Proof.
  induction p as [|a p IH]; intros H H' Hidle Hok; cbn [acts_ok] in Hok.
  - injection Hok as <-. apply reach_refl.
  - destruct (act_ok rank guard H a) as [H1|] eqn:Ea; [|discriminate].
    eapply reach_step; [|apply (IH H1 H' Hidle Hok)].
    cbn [app]. apply step_at.
    assert (Hfree : forall l w, a = AAcq l w -> ~ holds_any (pre0 ++ {| th_held := H; th_prog := a :: p ++ rest |} :: post0) l).
    { intros l w -> (t & Hin & Hl). cbn [act_ok] in Ea.
      destruct (forallb (fun h => Nat.ltb (rank (fst h)) (rank l)) H) eqn:Ef; [|discriminate].
      apply in_app_or in Hin as [Hin|[<-|Hin]].
      - unfold th_locks in Hl. rewrite (Hidle t) in Hl by (apply in_or_app; left; exact Hin). contradiction.
      - unfold th_locks in Hl. cbn [th_held] in Hl. apply in_locks in Hl as (w' & Hl).
        rewrite forallb_forall in Ef. specialize (Ef _ Hl). cbn in Ef. apply Nat.ltb_lt in Ef. lia.
      - unfold th_locks in Hl. rewrite (Hidle t) in Hl by (apply in_or_app; right; exact Hin). contradiction. }
    destruct a as [l w|l|g wr].
    + destruct w; [apply s_acq_w|apply s_acq_r]; try exact Ea.
      * eapply Hfree; reflexivity.
      * intros (t & Hin & Hl). eapply Hfree; [reflexivity|]. exists t. split; [exact Hin|apply wlocks_incl; exact Hl].
    + apply s_rel. exact Ea.
    + assert (H1 = H). { cbn [act_ok] in Ea. destruct (guard g); [destruct (holds_for _ _ H); [|discriminate]|]; congruence. }
      subst H1. apply s_acc. exact Ea.
Qed.

Theorem no_deadlock (tps : list (list (list act))) c :
  Forall (Forall (fun p => acts_ok rank guard [] p = Some [])) tps ->
  reach (map fresh_thread tps) c -> unfinished c -> exists c', step rank guard c c'.
Proof. intros H Hr Hu. eapply progress; [|exact Hu]. eapply Inv_reach; [apply Inv_initial; exact H|exact Hr]. Qed.

End Reach.
