(* LockLang.v — a small structured language of lock operations, guarded accesses and calls, into
   which translator/gen_lockcfg.py translates every function of src/**/*.c; an executable checker
   (exec) that computes, context-sensitively, the set of locks held at every exit; and its soundness
   with respect to the path semantics (run): if the checker accepts, every path of the function
   - acquires locks only in increasing rank (never one it already holds),
   - releases only locks it holds,
   - touches a guarded global only while holding its guard, and WRITES it only while holding the guard
     exclusively (mutex or write lock; a read lock is not enough),
   - and leaves with exactly the locks the checker computed (balanced when that is the entry set). *)
From Coq Require Import List Arith Bool Lia PeanoNat.
Import ListNotations.

Inductive stmt :=
| Skip
| Acq (l : nat) (w : bool) | Rel (l : nat)   (* w: exclusive (mutex / wrlock) or shared (rdlock) *)
| Access (g : nat) (wr : bool)             (* wr: the access modifies the guarded data *)
| Call (f : nat) (args : list (option bool))
| Seq (a b : stmt)
| If (a b : stmt)                      (* either branch *)
| IfP (i : nat) (a b : stmt)           (* branch on the i-th (boolean) parameter *)
| Loop (body : stmt)                   (* zero or more iterations *)
| Catch (s : stmt)                     (* switch: a break inside ends the construct normally *)
| Return | Break | Continue.

Inductive act := AAcq (l : nat) (w : bool) | ARel (l : nat) | AAcc (g : nat) (wr : bool).

Section Lang.
Variable rank : nat -> nat.
Variable guard : nat -> option nat.          (* global -> lock that must be held *)
Variable body : nat -> option stmt.          (* function table *)

(* the locks a thread holds, each with the mode it was acquired in (true = exclusive: mutex / wrlock,
   false = shared: rdlock), sorted by lock id *)
Definition held := list (nat * bool).

Fixpoint remove1 (l : nat) (H : held) : held :=
  match H with [] => [] | h :: t => if Nat.eqb l (fst h) then t else h :: remove1 l t end.

Fixpoint insert (e : nat * bool) (H : held) : held :=
  match H with
  | [] => [e]
  | h :: t => if Nat.leb (fst e) (fst h) then e :: h :: t else h :: insert e t
  end.

Definition entry_eqb (x y : nat * bool) : bool := Nat.eqb (fst x) (fst y) && Bool.eqb (snd x) (snd y).

Fixpoint held_eqb (a b : held) : bool :=
  match a, b with
  | [], [] => true
  | x :: a', y :: b' => entry_eqb x y && held_eqb a' b'
  | _, _ => false
  end.

Lemma held_eqb_eq a b : held_eqb a b = true -> a = b.
Proof.
  revert b. induction a as [|x a IH]; intros [|y b]; cbn; try discriminate; [reflexivity|].
  intros H. apply andb_true_iff in H as [E1 E2]. unfold entry_eqb in E1. apply andb_true_iff in E1 as [E1 E1'].
  apply Nat.eqb_eq in E1. apply Bool.eqb_prop in E1'. destruct x, y; cbn in *. subst. rewrite (IH b E2). reflexivity.
Qed.

(* is lock l held (in any mode) / held in a mode sufficient for an access of mode wr *)
Definition holds (l : nat) (H : held) : bool := existsb (fun h => Nat.eqb l (fst h)) H.
Definition holds_for (l : nat) (wr : bool) (H : held) : bool :=
  existsb (fun h => Nat.eqb l (fst h) && implb wr (snd h)) H.

(* ---- one action against a held set ---- *)
Definition act_ok (H : held) (a : act) : option held :=
  match a with
  | AAcq l w => if forallb (fun h => Nat.ltb (rank (fst h)) (rank l)) H then Some (insert (l, w) H) else None
  | ARel l => if holds l H then Some (remove1 l H) else None
  | AAcc g wr => match guard g with
                 | None => Some H
                 | Some l => if holds_for l wr H then Some H else None
                 end
  end.

Fixpoint acts_ok (H : held) (p : list act) : option held :=
  match p with
  | [] => Some H
  | a :: r => match act_ok H a with Some H1 => acts_ok H1 r | None => None end
  end.

Lemma acts_ok_app H p q : acts_ok H (p ++ q) = match acts_ok H p with Some H1 => acts_ok H1 q | None => None end.
Proof. revert H. induction p as [|a r IH]; intros H; cbn; [reflexivity|]. destruct (act_ok H a); [apply IH|reflexivity]. Qed.

(* ---- exits ---- *)
Inductive exit := XNorm | XBrk | XCont | XRet.

(* None = that exit is unreachable *)
Record outcome := { o_n : option held; o_b : option held; o_c : option held; o_r : option held }.

Definition merge (a b : option held) : option (option held) :=
  match a, b with
  | None, x => Some x
  | x, None => Some x
  | Some x, Some y => if held_eqb x y then Some (Some x) else None
  end.

Definition get_exit (o : outcome) (k : exit) : option held :=
  match k with XNorm => o_n o | XBrk => o_b o | XCont => o_c o | XRet => o_r o end.

Definition only_n (H : held) : outcome := {| o_n := Some H; o_b := None; o_c := None; o_r := None |}.

Definition merge_out (x y : outcome) : option outcome :=
  match merge (o_n x) (o_n y), merge (o_b x) (o_b y), merge (o_c x) (o_c y), merge (o_r x) (o_r y) with
  | Some n, Some b, Some c, Some r => Some {| o_n := n; o_b := b; o_c := c; o_r := r |}
  | _, _, _, _ => None
  end.

Definition same_or_none (x : option held) (H : held) : bool :=
  match x with None => true | Some y => held_eqb y H end.

(* ---- the checker ---- *)
Fixpoint exec_stmt (call : list (option bool) -> nat -> held -> option outcome)
                   (penv : list (option bool)) (s : stmt) (H : held) : option outcome :=
  match s with
  | Skip => Some (only_n H)
  | Acq l w => option_map only_n (act_ok H (AAcq l w))
  | Rel l => option_map only_n (act_ok H (ARel l))
  | Access g wr => option_map only_n (act_ok H (AAcc g wr))
  | Call f args => call args f H
  | Seq a b =>
      match exec_stmt call penv a H with
      | None => None
      | Some oa =>
          match o_n oa with
          | None => Some oa
          | Some H1 =>
              match exec_stmt call penv b H1 with
              | None => None
              | Some ob => merge_out {| o_n := None; o_b := o_b oa; o_c := o_c oa; o_r := o_r oa |} ob
              end
          end
      end
  | If a b =>
      match exec_stmt call penv a H, exec_stmt call penv b H with
      | Some oa, Some ob => merge_out oa ob
      | _, _ => None
      end
  | IfP i a b =>
      match nth i penv None with
      | Some true => exec_stmt call penv a H
      | Some false => exec_stmt call penv b H
      | None => match exec_stmt call penv a H, exec_stmt call penv b H with
                | Some oa, Some ob => merge_out oa ob
                | _, _ => None
                end
      end
  | Loop b =>
      match exec_stmt call penv b H with
      | None => None
      | Some ob =>
          if same_or_none (o_n ob) H && same_or_none (o_c ob) H && same_or_none (o_b ob) H
          then Some {| o_n := Some H; o_b := None; o_c := None; o_r := o_r ob |}
          else None
      end
  | Catch a =>
      match exec_stmt call penv a H with
      | None => None
      | Some oa => match merge (o_n oa) (o_b oa) with
                   | Some n => Some {| o_n := n; o_b := None; o_c := o_c oa; o_r := o_r oa |}
                   | None => None
                   end
      end
  | Return => Some {| o_n := None; o_b := None; o_c := None; o_r := Some H |}
  | Break => Some {| o_n := None; o_b := Some H; o_c := None; o_r := None |}
  | Continue => Some {| o_n := None; o_b := None; o_c := Some H; o_r := None |}
  end.

(* calls: the callee's body with the actual boolean arguments; break/continue cannot escape *)
Fixpoint exec_call (fuel : nat) (args : list (option bool)) (f : nat) (H : held) : option outcome :=
  match fuel with
  | O => None
  | S fu =>
      match body f with
      | None => None
      | Some s =>
          match exec_stmt (exec_call fu) args s H with
          | None => None
          | Some o =>
              match o_b o, o_c o, merge (o_n o) (o_r o) with
              | None, None, Some n => Some {| o_n := n; o_b := None; o_c := None; o_r := None |}
              | _, _, _ => None
              end
          end
      end
  end.

(* an entry point is accepted when, started with no lock held, it can only end with no lock held *)
Definition check_entry (fuel : nat) (f : nat) : bool :=
  match exec_call fuel [] f [] with
  | Some o => same_or_none (o_n o) []
  | None => false
  end.

(* ---- path semantics ---- *)
Inductive run_stmt (callr : list (option bool) -> nat -> list act -> Prop) (penv : list (option bool))
  : stmt -> list act -> exit -> Prop :=
| r_skip : run_stmt callr penv Skip [] XNorm
| r_acq l w : run_stmt callr penv (Acq l w) [AAcq l w] XNorm
| r_rel l : run_stmt callr penv (Rel l) [ARel l] XNorm
| r_acc g wr : run_stmt callr penv (Access g wr) [AAcc g wr] XNorm
| r_call f args p : callr args f p -> run_stmt callr penv (Call f args) p XNorm
| r_seq1 a b p k : run_stmt callr penv a p k -> k <> XNorm -> run_stmt callr penv (Seq a b) p k
| r_seq2 a b p q k : run_stmt callr penv a p XNorm -> run_stmt callr penv b q k -> run_stmt callr penv (Seq a b) (p ++ q) k
| r_ifl a b p k : run_stmt callr penv a p k -> run_stmt callr penv (If a b) p k
| r_ifr a b p k : run_stmt callr penv b p k -> run_stmt callr penv (If a b) p k
| r_ifpl i a b p k : nth i penv None <> Some false -> run_stmt callr penv a p k -> run_stmt callr penv (IfP i a b) p k
| r_ifpr i a b p k : nth i penv None <> Some true -> run_stmt callr penv b p k -> run_stmt callr penv (IfP i a b) p k
| r_loop0 b : run_stmt callr penv (Loop b) [] XNorm
| r_loop_next b p q k k1 : run_stmt callr penv b p k1 -> (k1 = XNorm \/ k1 = XCont) ->
                           run_stmt callr penv (Loop b) q k -> run_stmt callr penv (Loop b) (p ++ q) k
| r_loop_brk b p : run_stmt callr penv b p XBrk -> run_stmt callr penv (Loop b) p XNorm
| r_loop_ret b p : run_stmt callr penv b p XRet -> run_stmt callr penv (Loop b) p XRet
| r_catch_brk a p : run_stmt callr penv a p XBrk -> run_stmt callr penv (Catch a) p XNorm
| r_catch a p k : run_stmt callr penv a p k -> k <> XBrk -> run_stmt callr penv (Catch a) p k
| r_return : run_stmt callr penv Return [] XRet
| r_break : run_stmt callr penv Break [] XBrk
| r_continue : run_stmt callr penv Continue [] XCont.

Fixpoint run_call (fuel : nat) (args : list (option bool)) (f : nat) (p : list act) : Prop :=
  match fuel with
  | O => False
  | S fu => exists s k, body f = Some s /\ run_stmt (run_call fu) args s p k /\ (k = XNorm \/ k = XRet)
  end.

(* ---- soundness ---- *)
Definition sound_call (call : list (option bool) -> nat -> held -> option outcome)
                      (callr : list (option bool) -> nat -> list act -> Prop) : Prop :=
  forall args f H o p, call args f H = Some o -> callr args f p ->
    exists H', acts_ok H p = Some H' /\ o_n o = Some H'.

Lemma merge_l a b m x : merge a b = Some m -> a = Some x -> m = Some x.
Proof.
  intros Hm ->. destruct b as [y|]; cbn in Hm.
  - destruct (held_eqb x y); [injection Hm as <-; reflexivity|discriminate].
  - injection Hm as <-. reflexivity.
Qed.
Lemma merge_r a b m x : merge a b = Some m -> b = Some x -> m = Some x.
Proof.
  intros Hm ->. destruct a as [y|]; cbn in Hm.
  - destruct (held_eqb y x) eqn:E; [|discriminate]. apply held_eqb_eq in E. subst. injection Hm as <-. reflexivity.
  - injection Hm as <-. reflexivity.
Qed.

Lemma merge_out_l x y o k H : merge_out x y = Some o -> get_exit x k = Some H -> get_exit o k = Some H.
Proof.
  unfold merge_out. destruct (merge (o_n x) (o_n y)) eqn:En; [|discriminate].
  destruct (merge (o_b x) (o_b y)) eqn:Eb; [|discriminate].
  destruct (merge (o_c x) (o_c y)) eqn:Ec; [|discriminate].
  destruct (merge (o_r x) (o_r y)) eqn:Er; [|discriminate].
  intros E. injection E as <-. destruct k; cbn; intros Hx; eapply merge_l; eauto.
Qed.
Lemma merge_out_r x y o k H : merge_out x y = Some o -> get_exit y k = Some H -> get_exit o k = Some H.
Proof.
  unfold merge_out. destruct (merge (o_n x) (o_n y)) eqn:En; [|discriminate].
  destruct (merge (o_b x) (o_b y)) eqn:Eb; [|discriminate].
  destruct (merge (o_c x) (o_c y)) eqn:Ec; [|discriminate].
  destruct (merge (o_r x) (o_r y)) eqn:Er; [|discriminate].
  intros E. injection E as <-. destruct k; cbn; intros Hx; eapply merge_r; eauto.
Qed.

Lemma same_or_none_some x H H' : same_or_none x H = true -> x = Some H' -> H' = H.
Proof. intros E ->. cbn in E. apply held_eqb_eq in E. exact E. Qed.

Lemma exec_stmt_sound call callr penv : sound_call call callr ->
  forall s p k, run_stmt callr penv s p k ->
  forall H o, exec_stmt call penv s H = Some o ->
  exists H', acts_ok H p = Some H' /\ get_exit o k = Some H'.
Proof.
  intros Hcall s p k Hrun.
  induction Hrun as [ | l w | l | g wr | f args p Hc | a b p k Ha IHa Hk | a b p q k Ha IHa Hb IHb
                    | a b p k Ha IHa | a b p k Hb IHb | i a b p k Hi Ha IHa | i a b p k Hi Hb IHb
                    | b | b p q k k1 Hb IHb Hk1 Hl IHl | b p Hb IHb | b p Hb IHb
                    | a p Ha IHa | a p k Ha IHa Hk | | | ]; intros H o He; cbn [exec_stmt] in He.
  - injection He as <-. exists H. split; reflexivity.
  - cbn [acts_ok]. destruct (act_ok H (AAcq l w)) as [H1|]; [|discriminate]. injection He as <-. exists H1. split; reflexivity.
  - cbn [acts_ok]. destruct (act_ok H (ARel l)) as [H1|]; [|discriminate]. injection He as <-. exists H1. split; reflexivity.
  - cbn [acts_ok]. destruct (act_ok H (AAcc g wr)) as [H1|]; [|discriminate]. injection He as <-. exists H1. split; reflexivity.
  - destruct (Hcall args f H o p He Hc) as (H' & A & B). exists H'. split; [exact A|exact B].
  - (* seq1 *)
    destruct (exec_stmt call penv a H) as [oa|] eqn:Ea; [|discriminate].
    destruct (IHa H oa Ea) as (H' & A & B). exists H'. split; [exact A|].
    destruct (o_n oa) as [H1|] eqn:En.
    + destruct (exec_stmt call penv b H1) as [ob|]; [|discriminate].
      eapply merge_out_l; [exact He|]. destruct k; cbn in *; congruence.
    + injection He as <-. exact B.
  - (* seq2 *)
    destruct (exec_stmt call penv a H) as [oa|] eqn:Ea; [|discriminate].
    destruct (IHa H oa Ea) as (H1 & A & B). cbn in B. rewrite B in He.
    destruct (exec_stmt call penv b H1) as [ob|] eqn:Eb; [|discriminate].
    destruct (IHb H1 ob Eb) as (H2 & C & D). exists H2. split.
    + rewrite acts_ok_app, A. exact C.
    + eapply merge_out_r; [exact He|exact D].
  - destruct (exec_stmt call penv a H) as [oa|] eqn:Ea; [|discriminate].
    destruct (exec_stmt call penv b H) as [ob|] eqn:Eb; [|discriminate].
    destruct (IHa H oa Ea) as (H' & A & B). exists H'. split; [exact A|]. eapply merge_out_l; eauto.
  - destruct (exec_stmt call penv a H) as [oa|] eqn:Ea; [|discriminate].
    destruct (exec_stmt call penv b H) as [ob|] eqn:Eb; [|discriminate].
    destruct (IHb H ob Eb) as (H' & A & B). exists H'. split; [exact A|]. eapply merge_out_r; eauto.
  - destruct (nth i penv None) as [[|]|] eqn:En.
    + apply IHa. exact He.
    + congruence.
    + destruct (exec_stmt call penv a H) as [oa|] eqn:Ea; [|discriminate].
      destruct (exec_stmt call penv b H) as [ob|] eqn:Eb; [|discriminate].
      destruct (IHa H oa Ea) as (H' & A & B). exists H'. split; [exact A|]. eapply merge_out_l; eauto.
  - destruct (nth i penv None) as [[|]|] eqn:En.
    + congruence.
    + apply IHb. exact He.
    + destruct (exec_stmt call penv a H) as [oa|] eqn:Ea; [|discriminate].
      destruct (exec_stmt call penv b H) as [ob|] eqn:Eb; [|discriminate].
      destruct (IHb H ob Eb) as (H' & A & B). exists H'. split; [exact A|]. eapply merge_out_r; eauto.
  - (* loop0 *)
    destruct (exec_stmt call penv b H) as [ob|]; [|discriminate].
    destruct (same_or_none (o_n ob) H && same_or_none (o_c ob) H && same_or_none (o_b ob) H); [|discriminate].
    injection He as <-. exists H. split; reflexivity.
  - (* loop next *)
    destruct (exec_stmt call penv b H) as [ob|] eqn:Eb; [|discriminate].
    destruct (same_or_none (o_n ob) H && same_or_none (o_c ob) H && same_or_none (o_b ob) H) eqn:Es; [|discriminate].
    apply andb_true_iff in Es as [Es Es3]. apply andb_true_iff in Es as [Es1 Es2].
    destruct (IHb H ob Eb) as (H1 & A & B).
    assert (H1 = H).
    { destruct Hk1 as [-> | ->]; cbn in B; [exact (same_or_none_some _ _ _ Es1 B)|exact (same_or_none_some _ _ _ Es2 B)]. }
    subst H1.
    assert (He' : exec_stmt call penv (Loop b) H = Some o).
    { cbn [exec_stmt]. rewrite Eb, Es1, Es2, Es3. cbn. exact He. }
    destruct (IHl H o He') as (H2 & C & D). exists H2. split; [rewrite acts_ok_app, A; exact C|exact D].
  - destruct (exec_stmt call penv b H) as [ob|] eqn:Eb; [|discriminate].
    destruct (same_or_none (o_n ob) H && same_or_none (o_c ob) H && same_or_none (o_b ob) H) eqn:Es; [|discriminate].
    apply andb_true_iff in Es as [Es Es3].
    destruct (IHb H ob Eb) as (H1 & A & B). cbn in B.
    assert (H1 = H) by (exact (same_or_none_some _ _ _ Es3 B)). subst H1.
    injection He as <-. exists H. split; [exact A|reflexivity].
  - destruct (exec_stmt call penv b H) as [ob|] eqn:Eb; [|discriminate].
    destruct (same_or_none (o_n ob) H && same_or_none (o_c ob) H && same_or_none (o_b ob) H) eqn:Es; [|discriminate].
    destruct (IHb H ob Eb) as (H1 & A & B). cbn in B.
    injection He as <-. exists H1. split; [exact A|exact B].
  - (* catch brk *)
    destruct (exec_stmt call penv a H) as [oa|] eqn:Ea; [|discriminate].
    destruct (merge (o_n oa) (o_b oa)) as [n|] eqn:Em; [|discriminate]. injection He as <-.
    destruct (IHa H oa Ea) as (H1 & A & B). cbn in B. exists H1. split; [exact A|]. cbn. eapply merge_r; eauto.
  - destruct (exec_stmt call penv a H) as [oa|] eqn:Ea; [|discriminate].
    destruct (merge (o_n oa) (o_b oa)) as [n|] eqn:Em; [|discriminate]. injection He as <-.
    destruct (IHa H oa Ea) as (H1 & A & B). exists H1. split; [exact A|].
    destruct k; cbn in *; try congruence. eapply merge_l; eauto.
  - injection He as <-. exists H. split; reflexivity.
  - injection He as <-. exists H. split; reflexivity.
  - injection He as <-. exists H. split; reflexivity.
Qed.

Lemma exec_call_sound fuel : sound_call (exec_call fuel) (run_call fuel).
Proof.
  induction fuel as [|fu IH]; intros args f H o p He Hr; [contradiction|].
  cbn [exec_call] in He. cbn [run_call] in Hr. destruct Hr as (s & k & Hb & Hrun & Hk).
  rewrite Hb in He. destruct (exec_stmt (exec_call fu) args s H) as [o1|] eqn:E1; [|discriminate].
  destruct (o_b o1) eqn:Eb; [discriminate|]. destruct (o_c o1) eqn:Ec; [discriminate|].
  destruct (merge (o_n o1) (o_r o1)) as [n|] eqn:Em; [|discriminate]. injection He as <-.
  destruct (exec_stmt_sound (exec_call fu) (run_call fu) args IH s p k Hrun H o1 E1) as (H' & A & B).
  exists H'. split; [exact A|]. cbn. destruct Hk as [-> | ->]; cbn in B; [eapply merge_l|eapply merge_r]; eauto.
Qed.

(* The theorem used by C10/C11: an accepted entry point, on every one of its paths, respects the
   rank order, releases only what it holds, holds the guard at every guarded access - exclusively when
   the access is a write -, and returns with no lock held. *)
Theorem check_entry_sound fuel f : check_entry fuel f = true ->
  forall p, run_call fuel [] f p -> acts_ok [] p = Some [].
Proof.
  unfold check_entry. destruct (exec_call fuel [] f []) as [o|] eqn:E; [|discriminate]. intros Hs p Hr.
  destruct (exec_call_sound fuel [] f [] o p E Hr) as (H' & A & B). rewrite A. f_equal.
  eapply same_or_none_some; eauto.
Qed.

(* what an accepted access means *)
Lemma holds_for_In l wr H : holds_for l wr H = true -> exists w, In (l, w) H /\ (wr = true -> w = true).
Proof.
  unfold holds_for. intros E. apply existsb_exists in E as ([l' w] & Hin & E). cbn in E.
  apply andb_true_iff in E as [E1 E2]. apply Nat.eqb_eq in E1. subst l'. exists w. split; [exact Hin|].
  intros ->. destruct w; [reflexivity|discriminate].
Qed.

Lemma acc_ok_holds H g wr l p : guard g = Some l -> acts_ok H (AAcc g wr :: p) <> None ->
  exists w, In (l, w) H /\ (wr = true -> w = true).
Proof.
  intros Hg. cbn [acts_ok act_ok]. rewrite Hg. destruct (holds_for l wr H) eqn:E; [|congruence].
  intros _. apply holds_for_In. exact E.
Qed.

(* every access inside an acceptable action sequence happens with its guard held, and every write
   access with the guard held exclusively *)
Lemma acts_ok_access H0 Hend pre g wr l rest : acts_ok H0 (pre ++ AAcc g wr :: rest) = Some Hend ->
  guard g = Some l ->
  exists H w, acts_ok H0 pre = Some H /\ In (l, w) H /\ (wr = true -> w = true).
Proof.
  intros Hok Hg. rewrite acts_ok_app in Hok. destruct (acts_ok H0 pre) as [H|] eqn:E; [|discriminate].
  destruct (acc_ok_holds H g wr l rest Hg) as (w & Hin & Hw); [rewrite Hok; discriminate|].
  exists H, w. split; [reflexivity|]. split; assumption.
Qed.

(* ---- which actions a statement can emit (syntactically) ---- *)
Definition act_eqb (x y : act) : bool :=
  match x, y with
  | AAcq l w, AAcq l' w' => Nat.eqb l l' && Bool.eqb w w'
  | ARel l, ARel l' => Nat.eqb l l'
  | AAcc g wr, AAcc g' wr' => Nat.eqb g g' && Bool.eqb wr wr'
  | _, _ => false
  end.

Lemma act_eqb_refl x : act_eqb x x = true.
Proof. destruct x; cbn; rewrite ?Nat.eqb_refl, ?Bool.eqb_reflx; reflexivity. Qed.

Fixpoint mentions (a : act) (s : stmt) : bool :=
  match s with
  | Acq l w => act_eqb a (AAcq l w)
  | Rel l => act_eqb a (ARel l)
  | Access g wr => act_eqb a (AAcc g wr)
  | Seq x y | If x y | IfP _ x y => mentions a x || mentions a y
  | Loop x | Catch x => mentions a x
  | _ => false
  end.

Lemma run_stmt_mentions (callr : list (option bool) -> nat -> list act -> Prop) (penv : list (option bool)) (a : act) :
  (forall args f p, callr args f p -> ~ In a p) ->
  forall s p k, run_stmt callr penv s p k -> mentions a s = false -> ~ In a p.
Proof.
  intros Hc s p k Hr.
  induction Hr as [ | l w | l | g wr | f args p Hcall | x y p k Hx IHx Hk | x y p q k Hx IHx Hy IHy
                  | x y p k Hx IHx | x y p k Hy IHy | i x y p k Hi Hx IHx | i x y p k Hi Hy IHy
                  | b | b p q k k1 Hb IHb Hk1 Hl IHl | b p Hb IHb | b p Hb IHb
                  | x p Hx IHx | x p k Hx IHx Hk | | | ]; cbn [mentions]; intros Hm.
  - intros [].
  - intros [<-|[]]. rewrite act_eqb_refl in Hm. discriminate.
  - intros [<-|[]]. rewrite act_eqb_refl in Hm. discriminate.
  - intros [<-|[]]. rewrite act_eqb_refl in Hm. discriminate.
  - eapply Hc; eauto.
  - apply orb_false_iff in Hm as [Hm1 Hm2]. apply IHx. exact Hm1.
  - apply orb_false_iff in Hm as [Hm1 Hm2]. intro Hin. apply in_app_or in Hin as [Hin|Hin]; [exact (IHx Hm1 Hin)|exact (IHy Hm2 Hin)].
  - apply orb_false_iff in Hm as [Hm1 Hm2]. apply IHx. exact Hm1.
  - apply orb_false_iff in Hm as [Hm1 Hm2]. apply IHy. exact Hm2.
  - apply orb_false_iff in Hm as [Hm1 Hm2]. apply IHx. exact Hm1.
  - apply orb_false_iff in Hm as [Hm1 Hm2]. apply IHy. exact Hm2.
  - intros [].
  - intro Hin. apply in_app_or in Hin as [Hin|Hin]; [exact (IHb Hm Hin)|exact (IHl Hm Hin)].
  - apply IHb. exact Hm.
  - apply IHb. exact Hm.
  - apply IHx. exact Hm.
  - apply IHx. exact Hm.
  - intros [].
  - intros [].
  - intros [].
Qed.

Lemma run_call_mentions a fuel : (forall f s, body f = Some s -> mentions a s = false) ->
  forall args f p, run_call fuel args f p -> ~ In a p.
Proof.
  intros Hb. induction fuel as [|fu IH]; intros args f p Hr; [contradiction|].
  cbn [run_call] in Hr. destruct Hr as (s & k & Hbf & Hrun & _).
  eapply run_stmt_mentions; [exact IH|exact Hrun|eapply Hb; exact Hbf].
Qed.

End Lang.
