(* LockProofs.v — the generated lock programs are accepted by the verified checker. *)
From Coq Require Import List Arith Bool.
From LB Require Import LockLang LockCfg.
Import ListNotations.

Definition no_guard (g : nat) : option nat := None.

(* balance + rank order for every public function and internal thread (C11) *)
Lemma all_entries_balanced_ordered :
  forallb (check_entry rank no_guard body call_depth) (public_entries ++ thread_mains) = true.
Proof. vm_compute. reflexivity. Qed.

(* additionally: every access to a guarded global holds its guard, for the thread-safe API and
   the internal threads (C10) *)
Lemma threadsafe_entries_lockset :
  forallb (check_entry rank guard body call_depth) (threadsafe_entries ++ thread_mains) = true.
Proof. vm_compute. reflexivity. Qed.

From LB Require Import LockSem.

Lemma entry_paths_ok p :
  (exists f, In f (public_entries ++ thread_mains) /\ run_call body call_depth [] f p) ->
  acts_ok rank no_guard [] p = Some [].
Proof.
  intros (f & Hin & Hr). pose proof all_entries_balanced_ordered as Hb. rewrite forallb_forall in Hb.
  eapply check_entry_sound; [apply Hb; exact Hin|exact Hr].
Qed.

Lemma threadsafe_paths_ok p :
  (exists f, In f (threadsafe_entries ++ thread_mains) /\ run_call body call_depth [] f p) ->
  acts_ok rank guard [] p = Some [].
Proof.
  intros (f & Hin & Hr). pose proof threadsafe_entries_lockset as Hb. rewrite forallb_forall in Hb.
  eapply check_entry_sound; [apply Hb; exact Hin|exact Hr].
Qed.

Lemma no_deadlock_entries (tps : list (list (list act))) c :
  Forall (Forall (fun p => exists f, In f (public_entries ++ thread_mains) /\ run_call body call_depth [] f p)) tps ->
  reach rank no_guard (map fresh_thread tps) c -> unfinished c -> exists c', step rank no_guard c c'.
Proof.
  intros H. apply no_deadlock. eapply Forall_impl; [|exact H]. intros ps Hps.
  eapply Forall_impl; [|exact Hps]. intros p Hp. apply entry_paths_ok. exact Hp.
Qed.

Fixpoint nodupb (l : list nat) : bool :=
  match l with [] => true | x :: r => negb (existsb (Nat.eqb x) r) && nodupb r end.
Lemma nodupb_sound l : nodupb l = true -> NoDup l.
Proof.
  induction l as [|x r IH]; cbn; [constructor|]. intros H. apply andb_true_iff in H as [H1 H2].
  constructor; [|apply IH; exact H2]. intro Hin. apply negb_true_iff in H1.
  assert (existsb (Nat.eqb x) r = true) by (apply existsb_exists; exists x; split; [exact Hin|apply Nat.eqb_refl]). congruence.
Qed.
Lemma ranks_nodup : NoDup rank_tab /\ length rank_tab = lock_count.
Proof. split; [apply nodupb_sound; vm_compute; reflexivity|reflexivity]. Qed.

Lemma access_needs_guard H g wr l p :
  guard g = Some l -> acts_ok rank guard H (AAcc g wr :: p) <> None -> In l (locks_of H).
Proof.
  intros Hg Hok. destruct (acc_ok_holds rank guard H g wr l p Hg Hok) as (w & Hin & _).
  apply in_locks. exists w. exact Hin.
Qed.

(* a write access can only be the next action of a thread that holds the guard exclusively *)
Lemma write_needs_exclusive H g l p :
  guard g = Some l -> acts_ok rank guard H (AAcc g true :: p) <> None -> In (l, true) H.
Proof.
  intros Hg Hok. destruct (acc_ok_holds rank guard H g true l p Hg Hok) as (w & Hin & Hw).
  rewrite (Hw eq_refl) in Hin. exact Hin.
Qed.

Lemma threadsafe_inv (tps : list (list (list act))) c :
  Forall (Forall (fun p => exists f, In f (threadsafe_entries ++ thread_mains) /\ run_call body call_depth [] f p)) tps ->
  reach rank guard (map fresh_thread tps) c -> Inv rank guard c.
Proof.
  intros H Hr. eapply Inv_reach; [|exact Hr]. apply Inv_initial. eapply Forall_impl; [|exact H]. intros ps Hps.
  eapply Forall_impl; [|exact Hps]. intros p Hp. apply threadsafe_paths_ok. exact Hp.
Qed.

(* ---- mutual exclusion for the locks that the source only ever takes exclusively ---- *)
From LB Require Import LockExcl.

Definition excl_only (l : nat) : bool :=
  forallb (fun ob => match ob with Some s => negb (mentions (AAcq l false) s) | None => true end) body_tab.

Definition mutex_ids : list nat := filter excl_only (seq 0 lock_count).

Lemma excl_only_bodies l : excl_only l = true -> forall f s, body f = Some s -> mentions (AAcq l false) s = false.
Proof.
  intros H f s Hb. unfold excl_only in H. rewrite forallb_forall in H. unfold body in Hb.
  assert (Hin : In (Some s) body_tab).
  { destruct (Nat.lt_ge_cases f (length body_tab)) as [Hlt|Hge].
    - rewrite <- Hb. apply nth_In. exact Hlt.
    - rewrite nth_overflow in Hb by exact Hge. discriminate. }
  specialize (H _ Hin). cbn in H. apply negb_true_iff in H. exact H.
Qed.

Definition ts_path (p : list act) : Prop :=
  exists f, In f (threadsafe_entries ++ thread_mains) /\ run_call body call_depth [] f p.

Lemma no_shared_initial l (tps : list (list (list act))) : excl_only l = true ->
  Forall (Forall ts_path) tps -> no_shared l (map fresh_thread tps).
Proof.
  intros He H t Hin. apply in_map_iff in Hin as (ps & <- & Hps). cbn [fresh_thread th_prog].
  rewrite Forall_forall in H. specialize (H ps Hps). intro Hc. apply in_concat in Hc as (p & Hp & Hin).
  rewrite Forall_forall in H. destruct (H p Hp) as (f & _ & Hr).
  eapply run_call_mentions; [apply excl_only_bodies; exact He|exact Hr|exact Hin].
Qed.

Lemma HW_initial l (tps : list (list (list act))) : HW l (map fresh_thread tps).
Proof. intros t Hin. apply in_map_iff in Hin as (ps & <- & _). cbn. intros w []. Qed.

(* In every configuration reachable by any interleaving of threads running thread-safe API calls and
   the internal threads, two different threads are never both about to access data guarded by the same
   mutex. *)
Theorem mutex_mutual_exclusion (tps : list (list (list act))) pre t mid t' post l g g' wr wr' p p' :
  Forall (Forall ts_path) tps ->
  reach rank guard (map fresh_thread tps) (pre ++ t :: mid ++ t' :: post) ->
  excl_only l = true -> guard g = Some l -> guard g' = Some l ->
  th_prog t = AAcc g wr :: p -> th_prog t' = AAcc g' wr' :: p' -> False.
Proof.
  intros Hts Hr He Hg Hg' Hp Hp'.
  pose proof (threadsafe_inv tps _ Hts Hr) as Hinv.
  pose proof (Excl_reach rank guard _ _ (Excl_initial tps) Hr) as Hex.
  destruct (HW_reach rank guard l _ _ (no_shared_initial l tps He Hts) (HW_initial l tps) Hr) as [Hw _].
  exact (mutual_exclusion rank guard pre t mid t' post l g g' wr wr' p p' Hinv Hex Hw Hg Hg' Hp Hp').
Qed.

(* ---- read/write mode of rwlock-guarded data ---- *)

(* static: on every path of every thread-safe public function and internal thread, at every access to
   a guarded global the guard is among the locks held at that point, and at every WRITE access it is
   held exclusively (mutex or write lock) *)
Theorem threadsafe_writes_exclusive p pre g wr l rest :
  ts_path p -> p = pre ++ AAcc g wr :: rest -> guard g = Some l ->
  exists H w, acts_ok rank guard [] pre = Some H /\ In (l, w) H /\ (wr = true -> w = true).
Proof.
  intros Hp -> Hg. eapply acts_ok_access; [|exact Hg]. apply threadsafe_paths_ok. exact Hp.
Qed.

(* semantic: in every configuration reachable by any interleaving of any number of threads running
   thread-safe API calls and the internal threads, if one thread is about to WRITE data guarded by lock
   l, no other thread is about to access (read or write) data guarded by l. First for threads running
   any paths the checker's rules accept from the empty lock set, then for the paths of the entries. *)
Theorem checked_rw_exclusion (tps : list (list (list act))) pre t mid t' post l g g' wr wr' p p' :
  Forall (Forall (fun q => acts_ok rank guard [] q = Some [])) tps ->
  reach rank guard (map fresh_thread tps) (pre ++ t :: mid ++ t' :: post) ->
  guard g = Some l -> guard g' = Some l ->
  th_prog t = AAcc g wr :: p -> th_prog t' = AAcc g' wr' :: p' ->
  wr = true \/ wr' = true -> False.
Proof.
  intros Hts Hr Hg Hg' Hp Hp' Hwr.
  pose proof (Inv_reach rank guard _ _ (Inv_initial rank guard tps Hts) Hr) as Hinv.
  pose proof (Excl_reach rank guard _ _ (Excl_initial tps) Hr) as Hex.
  exact (rw_exclusion rank guard pre t mid t' post l g g' wr wr' p p' Hinv Hex Hg Hg' Hp Hp' Hwr).
Qed.

Theorem threadsafe_rw_exclusion (tps : list (list (list act))) pre t mid t' post l g g' wr wr' p p' :
  Forall (Forall ts_path) tps ->
  reach rank guard (map fresh_thread tps) (pre ++ t :: mid ++ t' :: post) ->
  guard g = Some l -> guard g' = Some l ->
  th_prog t = AAcc g wr :: p -> th_prog t' = AAcc g' wr' :: p' ->
  wr = true \/ wr' = true -> False.
Proof.
  intros Hts. apply checked_rw_exclusion. eapply Forall_impl; [|exact Hts]. intros ps Hps.
  eapply Forall_impl; [|exact Hps]. intros q Hq. apply threadsafe_paths_ok. exact Hq.
Qed.

(* the obligation is real: replacing the write lock of the witness function by a read lock makes the
   checker reject it *)
Fixpoint downgrade (l : nat) (s : stmt) : stmt :=
  match s with
  | Acq l' true => if Nat.eqb l l' then Acq l' false else s
  | Seq a b => Seq (downgrade l a) (downgrade l b)
  | If a b => If (downgrade l a) (downgrade l b)
  | IfP i a b => IfP i (downgrade l a) (downgrade l b)
  | Loop a => Loop (downgrade l a)
  | Catch a => Catch (downgrade l a)
  | _ => s
  end.
Definition body_downgraded (f0 l : nat) (f : nat) : option stmt :=
  if Nat.eqb f f0 then option_map (downgrade l) (body f) else body f.

Lemma rw_witness : ex_present = true ->
  guard ex_global = Some ex_rwlock /\
  (exists s, body ex_writer = Some s /\ mentions (AAcq ex_rwlock true) s = true /\ mentions (AAcc ex_global true) s = true) /\
  check_entry rank guard body call_depth ex_writer = true /\
  check_entry rank guard (body_downgraded ex_writer ex_rwlock) call_depth ex_writer = false /\
  In ex_reader threadsafe_entries /\
  (exists s, body ex_reader = Some s /\ mentions (AAcq ex_rwlock false) s = true /\ mentions (AAcq ex_rwlock true) s = false /\
             mentions (AAcc ex_global false) s = true).
Proof.
  intros E. first [discriminate E|clear E].
  split; [reflexivity|]. split; [eexists; split; [reflexivity|split; vm_compute; reflexivity]|].
  split; [vm_compute; reflexivity|]. split; [vm_compute; reflexivity|].
  split; [vm_compute; tauto|]. eexists. split; [reflexivity|]. repeat split; vm_compute; reflexivity.
Qed.

(* concrete paths (produced by the verified path generator of LockWitness.v): a path of the witness
   writer on which the write access happens with the write lock held, a path of the witness reader on
   which the read access happens with the read lock held; and a configuration, reachable from two fresh
   threads running these two paths, in which the writer is about to perform its write access *)
From LB Require Import LockWitness.

Lemma rw_path_witness : ex_present = true ->
  (exists pre rest H, run_call body call_depth [] ex_writer (pre ++ AAcc ex_global true :: rest) /\
      acts_ok rank guard [] pre = Some H /\ In (ex_rwlock, true) H) /\
  (exists pre rest H, run_call body call_depth [] ex_reader (pre ++ AAcc ex_global false :: rest) /\
      acts_ok rank guard [] pre = Some H /\ In (ex_rwlock, false) H).
Proof.
  intros E. first [discriminate E|clear E]. split.
  - destruct (witness body call_depth 8 ex_writer (AAcc ex_global true)) as [[pre rest]|] eqn:Ew; [|vm_compute in Ew; discriminate].
    pose proof (witness_sound _ _ _ _ _ _ _ Ew) as Hr. vm_compute in Ew. injection Ew as <- <-.
    eexists _, _, _. split; [exact Hr|]. split; [vm_compute; reflexivity|]. vm_compute. tauto.
  - destruct (witness body call_depth 8 ex_reader (AAcc ex_global false)) as [[pre rest]|] eqn:Ew; [|vm_compute in Ew; discriminate].
    pose proof (witness_sound _ _ _ _ _ _ _ Ew) as Hr. vm_compute in Ew. injection Ew as <- <-.
    eexists _, _, _. split; [exact Hr|]. split; [vm_compute; reflexivity|]. vm_compute. tauto.
Qed.

Lemma rw_reachable_witness : ex_present = true ->
  exists pw pr H p,
    run_call body call_depth [] ex_writer pw /\ run_call body call_depth [] ex_reader pr /\
    acts_ok rank guard [] pw = Some [] /\ acts_ok rank guard [] pr = Some [] /\
    reach rank guard (map fresh_thread [[pw]; [pr]])
          [ {| th_held := H; th_prog := AAcc ex_global true :: p |}; fresh_thread [pr] ] /\
    In (ex_rwlock, true) H.
Proof.
  intros E. destruct (rw_path_witness E) as [(pre & rest & H & Hrw & Hpre & Hin) (pre' & rest' & H' & Hrr & _)].
  destruct (rw_witness E) as (_ & _ & Hcw & _ & Hts & _).
  assert (Hokw : acts_ok rank guard [] (pre ++ AAcc ex_global true :: rest) = Some []).
  { eapply check_entry_sound; [exact Hcw|exact Hrw]. }
  assert (Hokr : acts_ok rank guard [] (pre' ++ AAcc ex_global false :: rest') = Some []).
  { apply threadsafe_paths_ok. exists ex_reader. split; [apply in_or_app; left; exact Hts|exact Hrr]. }
  exists (pre ++ AAcc ex_global true :: rest), (pre' ++ AAcc ex_global false :: rest'), H, (rest ++ []).
  repeat split; try assumption.
  cbn [map]. unfold fresh_thread at 1. cbn [concat]. rewrite <- app_assoc. cbn [app].
  apply (solo_run rank guard [] [fresh_thread [pre' ++ AAcc ex_global false :: rest']] pre (AAcc ex_global true :: rest ++ []) [] H).
  - intros t [<-|[]]. reflexivity.
  - exact Hpre.
Qed.

Lemma mutexes_exist : (10 <= length mutex_ids).
Proof. vm_compute. repeat constructor. Qed.
