(* LockExcl.v — exclusion in the interleaving semantics of LockSem.v (C10):
   at most one thread holds a lock in exclusive mode, and then nobody else holds it at all;
   reader/writer exclusion: if a thread is about to WRITE data guarded by lock l, no other thread is
   about to access (read or write) data guarded by l;
   for locks that are only ever taken exclusively (mutexes), two threads are never both about to
   perform any access guarded by the same lock. *)
From Coq Require Import List Arith Bool Lia PeanoNat.
From LB Require Import LockLang LockSem.
Import ListNotations.

Section Excl.
Variable rank : nat -> nat.
Variable guard : nat -> option nat.

Definition mem (l : nat) (L : list nat) : bool := existsb (Nat.eqb l) L.
Definition b2n (b : bool) : nat := if b then 1 else 0.

(* number of threads holding l in any mode / exclusively *)
Fixpoint hcount (l : nat) (c : config) : nat :=
  match c with [] => 0 | t :: r => b2n (mem l (th_locks t)) + hcount l r end.
Fixpoint wcount (l : nat) (c : config) : nat :=
  match c with [] => 0 | t :: r => b2n (mem l (th_w t)) + wcount l r end.

Lemma hcount_app l a b : hcount l (a ++ b) = hcount l a + hcount l b.
Proof. induction a as [|t r IH]; cbn; [reflexivity|]. rewrite IH. lia. Qed.
Lemma wcount_app l a b : wcount l (a ++ b) = wcount l a + wcount l b.
Proof. induction a as [|t r IH]; cbn; [reflexivity|]. rewrite IH. lia. Qed.

Lemma mem_In l H : mem l H = true <-> In l H.
Proof.
  unfold mem. rewrite existsb_exists. split.
  - intros (x & Hx & E). apply Nat.eqb_eq in E. subst. exact Hx.
  - intros Hin. exists l. split; [exact Hin|apply Nat.eqb_refl].
Qed.

Lemma mem_iff l A B : (In l A <-> In l B) -> mem l A = mem l B.
Proof.
  intros E. destruct (mem l A) eqn:EA, (mem l B) eqn:EB; try reflexivity.
  - apply mem_In in EA. apply E in EA. apply mem_In in EA. congruence.
  - apply mem_In in EB. apply E in EB. apply mem_In in EB. congruence.
Qed.

Lemma mem_impl l A B : (In l A -> In l B) -> mem l A = true -> mem l B = true.
Proof. intros E EA. apply mem_In. apply E. apply mem_In. exact EA. Qed.

Lemma holds_mem l H : holds l H = mem l (locks_of H).
Proof. unfold holds, mem, locks_of. induction H as [|h t IH]; cbn; [reflexivity|]. rewrite IH. reflexivity. Qed.

Lemma hcount_zero l c : ~ holds_any c l -> hcount l c = 0.
Proof.
  induction c as [|t r IH]; intros H; [reflexivity|]. cbn [hcount].
  destruct (mem l (th_locks t)) eqn:E.
  - exfalso. apply H. exists t. split; [left; reflexivity|apply mem_In; exact E].
  - rewrite IH; [reflexivity|]. intros (t' & Hin & Hl). apply H. exists t'. split; [right; exact Hin|exact Hl].
Qed.
Lemma wcount_zero l c : ~ holds_w c l -> wcount l c = 0.
Proof.
  induction c as [|t r IH]; intros H; [reflexivity|]. cbn [wcount].
  destruct (mem l (th_w t)) eqn:E.
  - exfalso. apply H. exists t. split; [left; reflexivity|apply mem_In; exact E].
  - rewrite IH; [reflexivity|]. intros (t' & Hin & Hl). apply H. exists t'. split; [right; exact Hin|exact Hl].
Qed.

Lemma wmem_le_hmem l H : b2n (mem l (wlocks_of H)) <= b2n (mem l (locks_of H)).
Proof.
  destruct (mem l (wlocks_of H)) eqn:E; cbn [b2n]; [|lia].
  rewrite (mem_impl l _ _ (wlocks_incl H l) E). cbn. lia.
Qed.

Lemma wcount_le_hcount l c : wcount l c <= hcount l c.
Proof.
  induction c as [|t r IH]; [cbn; lia|]. cbn [wcount hcount].
  pose proof (wmem_le_hmem l (th_held t)). unfold th_w, th_locks. lia.
Qed.

(* at most one exclusive holder, and an exclusive holder is the only holder *)
Definition Excl (c : config) : Prop := forall l, wcount l c <= 1 /\ (wcount l c = 1 -> hcount l c = 1).

Lemma mem_locks_insert l l0 w H : mem l (locks_of (insert (l0, w) H)) = Nat.eqb l l0 || mem l (locks_of H).
Proof.
  destruct (Nat.eqb_spec l l0) as [->|Hn]; cbn [orb].
  - apply mem_In. apply in_locks. exists w. apply in_insert. left. reflexivity.
  - apply mem_iff. rewrite !in_locks. split; intros (w' & Hin); exists w'.
    + apply in_insert in Hin as [E|Hin]; [congruence|exact Hin].
    + apply in_insert. right. exact Hin.
Qed.
Lemma mem_wlocks_insert l l0 w H : mem l (wlocks_of (insert (l0, w) H)) = (Nat.eqb l l0 && w) || mem l (wlocks_of H).
Proof.
  destruct (Nat.eqb_spec l l0) as [->|Hn]; cbn [andb orb].
  - destruct w; cbn [orb].
    + apply mem_In. apply in_wlocks. apply in_insert. left. reflexivity.
    + apply mem_iff. rewrite !in_wlocks. rewrite in_insert. split; [intros [E|Hin]; [congruence|exact Hin]|tauto].
  - apply mem_iff. rewrite !in_wlocks. rewrite in_insert. split; [intros [E|Hin]; [congruence|exact Hin]|tauto].
Qed.

Lemma mem_locks_remove1_other l l0 H : l <> l0 -> mem l (locks_of (remove1 l0 H)) = mem l (locks_of H).
Proof.
  intros Hn. apply mem_iff. rewrite !in_locks. split; intros (w & Hin); exists w.
  - eapply remove1_incl; eauto.
  - apply in_remove1_other; [cbn; exact Hn|exact Hin].
Qed.
Lemma mem_wlocks_remove1_other l l0 H : l <> l0 -> mem l (wlocks_of (remove1 l0 H)) = mem l (wlocks_of H).
Proof.
  intros Hn. apply mem_iff. rewrite !in_wlocks. split; intros Hin.
  - eapply remove1_incl; eauto.
  - apply in_remove1_other; [cbn; exact Hn|exact Hin].
Qed.
Lemma wmem_remove1_le l l0 H : b2n (mem l (wlocks_of (remove1 l0 H))) <= b2n (mem l (wlocks_of H)).
Proof.
  destruct (mem l (wlocks_of (remove1 l0 H))) eqn:E; cbn [b2n]; [|lia].
  assert (E2 : mem l (wlocks_of H) = true).
  { eapply mem_impl; [|exact E]. rewrite !in_wlocks. apply remove1_incl. }
  rewrite E2. cbn. lia.
Qed.

Theorem excl_preserved c c' : Excl c -> step rank guard c c' -> Excl c'.
Proof.
  intros He Hs. destruct Hs as [pre t t' post Hts]. intros l. specialize (He l).
  pose proof (wcount_le_hcount l pre) as Hlp. pose proof (wcount_le_hcount l post) as Hlq.
  rewrite !hcount_app, !wcount_app in *. cbn [hcount wcount] in *. unfold th_w, th_locks in *.
  inversion Hts as [H l0 p H' Hfree Ha|H l0 p H' Hfree Ha|H l0 p H' Ha|H g wr p Ha]; subst; cbn [th_held] in *.
  - (* exclusive acquire *)
    cbn [act_ok] in Ha. destruct (forallb _ H); [|discriminate]. injection Ha as <-.
    rewrite mem_locks_insert, mem_wlocks_insert.
    destruct (Nat.eqb_spec l l0) as [->|Hn]; cbn [andb orb]; [|exact He].
    pose proof (hcount_zero l0 _ Hfree) as Hz. rewrite hcount_app in Hz. cbn [hcount] in Hz. unfold th_locks in Hz. cbn [th_held] in Hz.
    cbn [b2n]. lia.
  - (* shared acquire *)
    cbn [act_ok] in Ha. destruct (forallb _ H); [|discriminate]. injection Ha as <-.
    rewrite mem_locks_insert, mem_wlocks_insert.
    destruct (Nat.eqb_spec l l0) as [->|Hn]; cbn [andb orb]; [|exact He].
    pose proof (wcount_zero l0 _ Hfree) as Hz. rewrite wcount_app in Hz. cbn [wcount] in Hz. unfold th_w in Hz. cbn [th_held] in Hz.
    lia.
  - (* release *)
    cbn [act_ok] in Ha. destruct (holds l0 H) eqn:Eh; [|discriminate]. injection Ha as <-.
    destruct (Nat.eq_dec l l0) as [->|Hn].
    + rewrite holds_mem in Eh. rewrite Eh in He. cbn [b2n] in He.
      pose proof (wmem_remove1_le l0 l0 H) as H1. pose proof (wmem_le_hmem l0 (remove1 l0 H)) as H2.
      pose proof (wmem_le_hmem l0 H) as H3. rewrite Eh in H3. cbn [b2n] in H3.
      destruct (mem l0 (locks_of (remove1 l0 H))); cbn [b2n] in *; lia.
    + rewrite mem_locks_remove1_other, mem_wlocks_remove1_other by exact Hn. exact He.
  - exact He.
Qed.

Lemma Excl_initial (tps : list (list (list act))) : Excl (map fresh_thread tps).
Proof.
  intros l. assert (H : wcount l (map fresh_thread tps) = 0 /\ hcount l (map fresh_thread tps) = 0).
  { induction tps as [|p r [A B]]; cbn; [auto|]. rewrite A, B. auto. }
  destruct H as [A B]. rewrite A. split; [lia|lia].
Qed.

Lemma Excl_reach c c' : Excl c -> reach rank guard c c' -> Excl c'.
Proof.
  intros He Hr. induction Hr as [c|c c1 c2 Hs _ IH]; [exact He|].
  apply IH. eapply excl_preserved; eauto.
Qed.

(* two different threads never both hold a lock if one of them holds it exclusively *)
Theorem writer_excludes pre t mid t' post l :
  Excl (pre ++ t :: mid ++ t' :: post) -> In l (th_w t) -> In l (th_locks t') -> False.
Proof.
  intros He Hw Hh.
  assert (Hth : In l (th_locks t)) by (apply wlocks_incl; exact Hw).
  specialize (He l). rewrite !hcount_app, !wcount_app in He. cbn [hcount wcount] in He.
  rewrite !hcount_app, !wcount_app in He. cbn [hcount wcount] in He.
  pose proof (wcount_le_hcount l pre). pose proof (wcount_le_hcount l mid). pose proof (wcount_le_hcount l post).
  pose proof (wmem_le_hmem l (th_held t')) as Ht'. unfold th_w, th_locks in *.
  apply mem_In in Hw. apply mem_In in Hh. apply mem_In in Hth. rewrite Hw, Hh, Hth in *. cbn [b2n] in *.
  destruct He as [He1 He2]. lia.
Qed.

(* the same with the two threads in the other order *)
Theorem writer_excludes' pre t mid t' post l :
  Excl (pre ++ t :: mid ++ t' :: post) -> In l (th_w t') -> In l (th_locks t) -> False.
Proof.
  intros He Hw Hh.
  assert (Hth : In l (th_locks t')) by (apply wlocks_incl; exact Hw).
  specialize (He l). rewrite !hcount_app, !wcount_app in He. cbn [hcount wcount] in He.
  rewrite !hcount_app, !wcount_app in He. cbn [hcount wcount] in He.
  pose proof (wcount_le_hcount l pre). pose proof (wcount_le_hcount l mid). pose proof (wcount_le_hcount l post).
  pose proof (wmem_le_hmem l (th_held t)) as Ht'. unfold th_w, th_locks in *.
  apply mem_In in Hw. apply mem_In in Hh. apply mem_In in Hth. rewrite Hw, Hh, Hth in *. cbn [b2n] in *.
  destruct He as [He1 He2]. lia.
Qed.

(* ---- reader/writer exclusion ---- *)
(* a thread whose next action is an access to data guarded by l holds l, and holds it exclusively when
   the access is a write *)
Lemma next_access_holds t g wr l p : th_ok rank guard t -> guard g = Some l -> th_prog t = AAcc g wr :: p ->
  In l (th_locks t) /\ (wr = true -> In l (th_w t)).
Proof.
  intros Hok Hg Hp. unfold th_ok in Hok. rewrite Hp in Hok.
  destruct (acc_ok_holds rank guard (th_held t) g wr l p Hg) as (w & Hin & Hw); [rewrite Hok; discriminate|].
  split.
  - apply in_locks. exists w. exact Hin.
  - intros E. apply in_wlocks. rewrite (Hw E) in Hin. exact Hin.
Qed.

(* In a configuration satisfying the invariants, if one of two different threads is about to WRITE data
   guarded by lock l, the other one is not about to access (read or write) data guarded by l. *)
Theorem rw_exclusion pre t mid t' post l g g' wr wr' p p' :
  Inv rank guard (pre ++ t :: mid ++ t' :: post) -> Excl (pre ++ t :: mid ++ t' :: post) ->
  guard g = Some l -> guard g' = Some l ->
  th_prog t = AAcc g wr :: p -> th_prog t' = AAcc g' wr' :: p' ->
  wr = true \/ wr' = true -> False.
Proof.
  intros Hi He Hg Hg' Hp Hp' Hwr.
  unfold Inv in Hi. rewrite Forall_forall in Hi.
  assert (Hin1 : In t (pre ++ t :: mid ++ t' :: post)) by (apply in_or_app; right; left; reflexivity).
  assert (Hin2 : In t' (pre ++ t :: mid ++ t' :: post)) by (apply in_or_app; right; right; apply in_or_app; right; left; reflexivity).
  destruct (next_access_holds t g wr l p (Hi t Hin1) Hg Hp) as [A1 B1].
  destruct (next_access_holds t' g' wr' l p' (Hi t' Hin2) Hg' Hp') as [A2 B2].
  destruct Hwr as [E|E].
  - eapply writer_excludes; [exact He|apply B1; exact E|exact A2].
  - eapply writer_excludes'; [exact He|apply B2; exact E|exact A1].
Qed.

(* ---- locks that are only ever taken exclusively (mutexes): every holder is the exclusive holder ---- *)
Definition no_shared (l : nat) (c : config) : Prop := forall t, In t c -> ~ In (AAcq l false) (th_prog t).
Definition HW (l : nat) (c : config) : Prop :=
  forall t, In t c -> forall w, In (l, w) (th_held t) -> w = true.

Lemma no_shared_step l c c' : no_shared l c -> step rank guard c c' -> no_shared l c'.
Proof.
  intros Hns Hs. destruct Hs as [pre t t' post Hts]. intros x Hin. apply in_app_or in Hin as [Hin|[<-|Hin]].
  - apply Hns. apply in_or_app. left. exact Hin.
  - assert (Ht : ~ In (AAcq l false) (th_prog t)) by (apply Hns; apply in_or_app; right; left; reflexivity).
    inversion Hts; subst; cbn [th_prog] in *; intro Hx; apply Ht; right; exact Hx.
  - apply Hns. apply in_or_app. right. right. exact Hin.
Qed.

Lemma HW_step l c c' : no_shared l c -> HW l c -> step rank guard c c' -> HW l c'.
Proof.
  intros Hns Hw Hs. destruct Hs as [pre t t' post Hts]. intros x Hin.
  assert (Ht : forall w, In (l, w) (th_held t) -> w = true) by (apply Hw; apply in_or_app; right; left; reflexivity).
  assert (Hnt : ~ In (AAcq l false) (th_prog t)) by (apply Hns; apply in_or_app; right; left; reflexivity).
  apply in_app_or in Hin as [Hin|[<-|Hin]]; [apply Hw; apply in_or_app; left; exact Hin| |apply Hw; apply in_or_app; right; right; exact Hin].
  inversion Hts as [H l0 p H' Hfree Ha|H l0 p H' Hfree Ha|H l0 p H' Ha|H g wr p Ha]; subst; cbn [th_held th_prog] in *.
  - cbn [act_ok] in Ha. destruct (forallb _ H); [|discriminate]. injection Ha as <-.
    intros w Hl. apply in_insert in Hl as [E|Hl]; [congruence|apply Ht; exact Hl].
  - cbn [act_ok] in Ha. destruct (forallb _ H); [|discriminate]. injection Ha as <-.
    intros w Hl. apply in_insert in Hl as [E|Hl]; [|apply Ht; exact Hl].
    injection E as -> ->. exfalso. apply Hnt. left. reflexivity.
  - cbn [act_ok] in Ha. destruct (holds l0 H); [|discriminate]. injection Ha as <-.
    intros w Hl. apply Ht. eapply remove1_incl; eauto.
  - exact Ht.
Qed.

Lemma HW_reach l c c' : no_shared l c -> HW l c -> reach rank guard c c' -> HW l c' /\ no_shared l c'.
Proof.
  intros Hn Hw Hr. induction Hr as [c|c c1 c2 Hs _ IH]; [split; assumption|].
  apply IH; [eapply no_shared_step; eauto|eapply HW_step; eauto].
Qed.

(* mutual exclusion: two different threads are never both about to access data guarded by the same
   exclusively-taken lock *)
Theorem mutual_exclusion pre t mid t' post l g g' wr wr' p p' :
  Inv rank guard (pre ++ t :: mid ++ t' :: post) -> Excl (pre ++ t :: mid ++ t' :: post) ->
  HW l (pre ++ t :: mid ++ t' :: post) ->
  guard g = Some l -> guard g' = Some l ->
  th_prog t = AAcc g wr :: p -> th_prog t' = AAcc g' wr' :: p' -> False.
Proof.
  intros Hi He Hw Hg Hg' Hp Hp'.
  unfold Inv in Hi. rewrite Forall_forall in Hi.
  assert (Hin1 : In t (pre ++ t :: mid ++ t' :: post)) by (apply in_or_app; right; left; reflexivity).
  assert (Hin2 : In t' (pre ++ t :: mid ++ t' :: post)) by (apply in_or_app; right; right; apply in_or_app; right; left; reflexivity).
  destruct (next_access_holds t g wr l p (Hi t Hin1) Hg Hp) as [A1 _].
  destruct (next_access_holds t' g' wr' l p' (Hi t' Hin2) Hg' Hp') as [A2 _].
  apply in_locks in A1 as (w & A1). pose proof (Hw t Hin1 w A1) as ->.
  eapply writer_excludes; [exact He|apply in_wlocks; exact A1|exact A2].
Qed.

End Excl.
