/*
 * C11 demo (unchanged library): a node logs in (MSG_NODE_NEW) while the host sets the configured features of a board.
 *
 * The program plays the BiDiB interface: it answers MSG_NODETAB_GETALL with MSG_NODETAB_COUNT(1), MSG_NODETAB_GETNEXT
 * with the row of the interface (unique id DA000D680001EE = board1 of test/unit/state_tests_config, which has two
 * features configured), and answers the FIRST MSG_FEATURE_SET with a spontaneous MSG_NODE_NEW (a node that finished its
 * login just now) followed by the requested MSG_FEATURE; later MSG_FEATURE_SETs are answered directly.
 * The host side is the public call bidib_send_sys_reset(), which must return.
 *
 * bidib_state_set_board_features() holds bidib_boards_rwlock in READ mode over the whole dialogue while it polls
 * bidib_read_intern_message() for the MSG_FEATURE answers. The receiver thread handles MSG_NODE_NEW first
 * (bidib_state_node_new takes the boards WRITE lock) and blocks; the MSG_FEATURE behind it is never queued; the host
 * never releases the read lock: bidib_send_sys_reset() never returns -> the watchdog reports the hang, exit 1.
 * With DEMO_NO_INJECT=1 the MSG_NODE_NEW is not sent and the call returns -> exit 0.
 *
 * Build (root of the library checkout): clang -std=gnu11 -w $(pkg-config --cflags glib-2.0) -I include -I . demo_features.c
 *   src/(all dirs)/(all .c) -lglib-2.0 -lyaml -lpthread -o demo_features ;  run: ./demo_features <config dir>
 */
#include <errno.h>
#include <pthread.h>
#include <signal.h>
#include <stdarg.h>
#include <stdbool.h>
#include <stdint.h>
#include <stdio.h>
#include <stdlib.h>
#include <string.h>
#include <unistd.h>

#include "bidib.h"
#include "definitions/bidib_messages.h"
#include "src/transmission/bidib_transmission_intern.h"
#include "src/state/bidib_state_intern.h"

#define WATCHDOG_SECS 12

/* ---- the library's log output (only shown with DEMO_VERBOSE=1) ------------ */
static int verbose = 0;
void syslog(int priority, const char *format, ...) {
	if (!verbose) {
		return;
	}
	va_list ap;
	va_start(ap, format);
	fprintf(stderr, "  [log %d] ", priority);
	vfprintf(stderr, format, ap);
	fputc('\n', stderr);
	va_end(ap);
}

/* ---- bytes travelling from the simulated interface to the host ------------ */
static pthread_mutex_t rx_mutex = PTHREAD_MUTEX_INITIALIZER;
static uint8_t rx_bytes[4096];
static size_t rx_head = 0, rx_tail = 0;

static void rx_put(uint8_t b) {
	rx_bytes[rx_tail++ % sizeof(rx_bytes)] = b;
}

static void rx_put_escaped(uint8_t b) {
	if (b == BIDIB_PKT_MAGIC || b == BIDIB_PKT_ESCAPE) {
		rx_put(BIDIB_PKT_ESCAPE);
		rx_put(b ^ 0x20);
	} else {
		rx_put(b);
	}
}

/* Puts one packet holding one message on the line (delimiters, escaping, crc). */
static void rx_packet(const uint8_t *msg) {
	uint8_t crc = 0;
	pthread_mutex_lock(&rx_mutex);
	rx_put(BIDIB_PKT_MAGIC);
	for (size_t i = 0; i <= msg[0]; i++) {
		crc = bidib_crc_array[msg[i] ^ crc];
		rx_put_escaped(msg[i]);
	}
	rx_put_escaped(crc);
	rx_put(BIDIB_PKT_MAGIC);
	pthread_mutex_unlock(&rx_mutex);
}

static uint8_t rd(int *ok) {
	uint8_t b = 0;
	pthread_mutex_lock(&rx_mutex);
	if (rx_head < rx_tail) {
		b = rx_bytes[rx_head++ % sizeof(rx_bytes)];
		*ok = 1;
	} else {
		*ok = 0;
	}
	pthread_mutex_unlock(&rx_mutex);
	return b;
}

/* ---- the simulated interface: reacts to what the host writes -------------- */
static volatile int seen_getall = 0, seen_getnext = 0, seen_changed_ack = 0, seen_feature_set = 0;
static int no_inject = 0;

static void interface_handles(const uint8_t *msg) {
	size_t i = 1;
	while (i <= msg[0] && msg[i] != 0x00) {
		i++;
	}
	if (i + 2 > msg[0]) {
		return;
	}
	bool to_interface = (i == 1);
	uint8_t type = msg[i + 2];
	if (to_interface && type == MSG_NODETAB_GETALL) {
		seen_getall++;
		const uint8_t count[] = {0x04, 0x00, 0x00, MSG_NODETAB_COUNT, 0x01};
		rx_packet(count);
	} else if (to_interface && type == MSG_NODETAB_GETNEXT) {
		seen_getnext++;
		const uint8_t row[] = {0x0C, 0x00, 0x00, MSG_NODETAB,
		                       0x01 /* table version */, 0x00 /* local addr */,
		                       0xDA, 0x00, 0x0D, 0x68, 0x00, 0x01, 0xEE};
		rx_packet(row);
	} else if (to_interface && type == MSG_FEATURE_SET) {
		if (seen_feature_set++ == 0 && !no_inject) {
			/* a node finished its login just now: spontaneous MSG_NODE_NEW ... */
			const uint8_t node_new[] = {0x0C, 0x00, 0x00, MSG_NODE_NEW,
			                            0x02 /* table version */, 0x05 /* local addr */,
			                            0x05, 0x00, 0x0D, 0x7B, 0x00, 0x2A, 0x01};
			rx_packet(node_new);
		}
		/* ... followed by the answer the host asked for */
		uint8_t feat[] = {0x05, 0x00, 0x00, MSG_FEATURE, msg[i + 3], msg[i + 4]};
		rx_packet(feat);
	} else if (to_interface && type == MSG_NODE_CHANGED_ACK) {
		seen_changed_ack++;
	}
}

static void wr(uint8_t *bytes, int32_t n) {
	/* The host may hand over a packet in several pieces, so keep the state. */
	static uint8_t frame[512];
	static size_t len = 0;
	static bool escape = false;
	for (int32_t k = 0; k < n; k++) {
		uint8_t b = bytes[k];
		if (b == BIDIB_PKT_MAGIC) {
			if (len > 1) {
				size_t end = len - 1; /* without crc */
				for (size_t i = 0; i < end && i + frame[i] < end; i += frame[i] + 1) {
					interface_handles(&frame[i]);
				}
			}
			len = 0;
			escape = false;
		} else if (b == BIDIB_PKT_ESCAPE) {
			escape = true;
		} else if (len < sizeof(frame)) {
			frame[len++] = escape ? (b ^ 0x20) : b;
			escape = false;
		}
	}
}

/* ---- host side ------------------------------------------------------------- */
static volatile int reset_returned = 0;

static void *host(void *unused) {
	(void) unused;
	/* public call: reset the bus and run the start-up dialogue */
	bidib_send_sys_reset(0);
	reset_returned = 1;
	return NULL;
}

static void backstop(int sig) {
	(void) sig;
	static const char msg[] = "FAIL: demo itself got stuck (backstop alarm)\n";
	write(2, msg, sizeof(msg) - 1);
	_exit(3);
}

int main(int argc, char **argv) {
	no_inject = getenv("DEMO_NO_INJECT") != NULL;
	verbose = getenv("DEMO_VERBOSE") != NULL;
	setvbuf(stdout, NULL, _IONBF, 0);
	signal(SIGALRM, backstop);
	alarm(WATCHDOG_SECS + 15);

	/* start without config files and without the start-up dialogue ... */
	bidib_set_lowlevel_debug_mode(true);
	if (bidib_start_pointer(rd, wr, argc > 1 ? argv[1] : NULL, 0)) {
		printf("FAIL: bidib_start_pointer failed\n");
		_exit(4);
	}
	/* ... then let the receiver thread handle the messages as in normal use */
	bidib_set_lowlevel_debug_mode(false);

	pthread_t host_thread;
	pthread_create(&host_thread, NULL, host, NULL);

	for (int i = 0; i < WATCHDOG_SECS * 10 && !reset_returned; i++) {
		usleep(100000);
	}

	if (reset_returned) {
		printf("OK: bidib_send_sys_reset() returned (NODETAB_GETALL seen %d, GETNEXT seen %d, "
		       "NODE_CHANGED_ACK seen %d)\n", seen_getall, seen_getnext, seen_changed_ack);
		printf("  MSG_FEATURE_SET seen %d\n", seen_feature_set);
		if (seen_getall < 1 || seen_getnext < 1 || seen_feature_set < 1 || (!no_inject && seen_changed_ack < 1)) {
			printf("FAIL: the scenario did not run as intended\n");
			_exit(5);
		}
		_exit(0);
	}

	printf("HANG: bidib_send_sys_reset() did not return within %d s\n", WATCHDOG_SECS);
	printf("  host asked for the node table: NODETAB_GETALL %d, NODETAB_GETNEXT %d; MSG_FEATURE_SET seen %d\n",
	       seen_getall, seen_getnext, seen_feature_set);
	printf("  receiver acknowledged MSG_NODE_NEW (MSG_NODE_CHANGED_ACK written): %s\n",
	       seen_changed_ack ? "yes" : "no - receiver thread is stuck in the handler");
	int r = pthread_rwlock_trywrlock(&bidib_boards_rwlock);
	if (r == 0) {
		pthread_rwlock_unlock(&bidib_boards_rwlock);
		printf("  bidib_boards_rwlock: free\n");
	} else {
		printf("  bidib_boards_rwlock: %s -> still read-locked by the caller of bidib_send_sys_reset() "
		       "(bidib_state_set_board_features), which waits for the MSG_FEATURE answer that the receiver "
		       "thread, blocked on the write lock in the MSG_NODE_NEW handler, can never deliver\n", strerror(r));
	}
	pthread_mutex_lock(&rx_mutex);
	printf("  bytes of the interface's answer not yet read by the receiver: %zu\n",
	       rx_tail - rx_head);
	pthread_mutex_unlock(&rx_mutex);
	_exit(1);
}
