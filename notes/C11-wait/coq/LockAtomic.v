(* LockAtomic.v — atomicity facts about the generated lock programs.
   (1) A generic verified checker for path automata: given a deterministic automaton over actions
       (tr : A -> act -> option A, None = violation), aexec computes for a statement and a SET of
       automaton states the set of states possible at each exit, over ALL paths (branches joined by
       union, loops by an inductive invariant, calls context-sensitively), and is sound with respect to the
       path semantics LockLang.run_stmt / run_call (acheck_sound).
   (2) The single-hold automaton: on a path, all accesses to the globals gs occur inside ONE hold interval
       of lock l (taken exclusively when excl = true), with no release and re-acquisition of l in between;
       accepted paths decompose as  pre ++ AAcq l w :: mid ++ ARel l :: post  with the gs-accesses in mid
       (sh_scan_path).
   (3) With LockTrace.sections_ordered: the sections of two threads running such paths do not interleave
       (sh_paths_ordered). *)
From Coq Require Import List Arith Bool Lia PeanoNat.
From LB Require Import LockLang LockSem LockTrace LockWitness.
Import ListNotations.

(* ================================================================== (1) path-automaton checker *)
Section Aut.
Variable A : Type.
Variable aeqb : A -> A -> bool.
Hypothesis aeqb_eq : forall x y, aeqb x y = true -> x = y.
Variable tr : A -> act -> option A.
Variable body : nat -> option stmt.

Fixpoint scan (s : A) (p : list act) : option A :=
  match p with
  | [] => Some s
  | a :: r => match tr s a with Some s' => scan s' r | None => None end
  end.

Lemma scan_app s p q : scan s (p ++ q) = match scan s p with Some s' => scan s' q | None => None end.
Proof. revert s. induction p as [|a r IH]; intros s; cbn; [reflexivity|]. destruct (tr s a); [apply IH|reflexivity]. Qed.

Definition aset := list A.
Definition memb (x : A) (X : aset) : bool := existsb (aeqb x) X.
Definition add (x : A) (X : aset) : aset := if memb x X then X else x :: X.
Definition union (a b : aset) : aset := fold_right add b a.
Definition subsetb (a b : aset) : bool := forallb (fun x => memb x b) a.

Lemma memb_In x X : memb x X = true -> In x X.
Proof. unfold memb. intros H. apply existsb_exists in H as (y & Hy & E). apply aeqb_eq in E. subst. exact Hy. Qed.
Lemma In_add x y X : In x X \/ x = y -> In x (add y X).
Proof.
  unfold add. destruct (memb y X) eqn:E; intros [H|H].
  - exact H.
  - subst. apply memb_In. exact E.
  - right. exact H.
  - left. symmetry. exact H.
Qed.
Lemma In_union x a b : In x a \/ In x b -> In x (union a b).
Proof.
  induction a as [|h t IH]; cbn; [tauto|]. intros [[E|H]|H].
  - apply In_add. right. symmetry. exact E.
  - apply In_add. left. apply IH. left. exact H.
  - apply In_add. left. apply IH. right. exact H.
Qed.
Lemma subsetb_In a b x : subsetb a b = true -> In x a -> In x b.
Proof. unfold subsetb. intros H Hx. rewrite forallb_forall in H. apply memb_In. apply H. exact Hx. Qed.

(* one action applied to every state of a set; a violation from any state is a violation *)
Fixpoint step_set (X : aset) (a : act) : option aset :=
  match X with
  | [] => Some []
  | s :: r => match tr s a, step_set r a with Some s', Some r' => Some (add s' r') | _, _ => None end
  end.

Lemma step_set_sound X a X' s : step_set X a = Some X' -> In s X -> exists s', tr s a = Some s' /\ In s' X'.
Proof.
  revert X'. induction X as [|h t IH]; intros X' H Hin; [contradiction|]. cbn in H.
  destruct (tr h a) as [h'|] eqn:Eh; [|discriminate]. destruct (step_set t a) as [t'|] eqn:Et; [|discriminate].
  injection H as <-. destruct Hin as [<-|Hin].
  - exists h'. split; [exact Eh|apply In_add; right; reflexivity].
  - destruct (IH t' eq_refl Hin) as (s' & A1 & A2). exists s'. split; [exact A1|apply In_add; left; exact A2].
Qed.

Record aout := { a_n : aset; a_b : aset; a_c : aset; a_r : aset }.
Definition aget (o : aout) (k : exit) : aset :=
  match k with XNorm => a_n o | XBrk => a_b o | XCont => a_c o | XRet => a_r o end.
Definition aunion (x y : aout) : aout :=
  {| a_n := union (a_n x) (a_n y); a_b := union (a_b x) (a_b y); a_c := union (a_c x) (a_c y); a_r := union (a_r x) (a_r y) |}.
Definition only_an (X : aset) : aout := {| a_n := X; a_b := []; a_c := []; a_r := [] |}.

Lemma aunion_l x y k s : In s (aget x k) -> In s (aget (aunion x y) k).
Proof. destruct k; cbn; intros H; apply In_union; left; exact H. Qed.
Lemma aunion_r x y k s : In s (aget y k) -> In s (aget (aunion x y) k).
Proof. destruct k; cbn; intros H; apply In_union; right; exact H. Qed.

Section Exec.
Variable call : list (option bool) -> nat -> aset -> option aset.
Variable penv : list (option bool).

(* the loop invariant: starting from the entry set, evaluate the body; if its normal/continue exits stay inside the
   set it is an invariant (returned together with the body's outcome on it), otherwise add them and try again *)
Fixpoint loop_fix (bodyf : aset -> option aout) (n : nat) (Iv : aset) : option (aset * aout) :=
  match bodyf Iv with
  | None => None
  | Some ob =>
      if subsetb (a_n ob) Iv && subsetb (a_c ob) Iv then Some (Iv, ob)
      else match n with
           | O => None
           | S m => loop_fix bodyf m (union (a_n ob) (union (a_c ob) Iv))
           end
  end.

Definition loop_rounds : nat := 8.

Fixpoint aexec (s : stmt) (X : aset) : option aout :=
  match s with
  | Skip => Some (only_an X)
  | Acq l w => option_map only_an (step_set X (AAcq l w))
  | Rel l => option_map only_an (step_set X (ARel l))
  | Access g wr => option_map only_an (step_set X (AAcc g wr))
  | Call f args => option_map only_an (call args f X)
  | Seq a b =>
      match aexec a X with
      | None => None
      | Some oa =>
          match aexec b (a_n oa) with
          | None => None
          | Some ob => Some {| a_n := a_n ob; a_b := union (a_b oa) (a_b ob); a_c := union (a_c oa) (a_c ob); a_r := union (a_r oa) (a_r ob) |}
          end
      end
  | If a b =>
      match aexec a X, aexec b X with Some oa, Some ob => Some (aunion oa ob) | _, _ => None end
  | IfP i a b =>
      match nth i penv None with
      | Some true => aexec a X
      | Some false => aexec b X
      | None => match aexec a X, aexec b X with Some oa, Some ob => Some (aunion oa ob) | _, _ => None end
      end
  | Loop b =>
      match loop_fix (aexec b) loop_rounds X with
      | None => None
      | Some (Iv, ob) => Some {| a_n := union Iv (a_b ob); a_b := []; a_c := []; a_r := a_r ob |}
      end
  | Catch a =>
      match aexec a X with
      | None => None
      | Some oa => Some {| a_n := union (a_n oa) (a_b oa); a_b := []; a_c := a_c oa; a_r := a_r oa |}
      end
  | Return => Some {| a_n := []; a_b := []; a_c := []; a_r := X |}
  | Break => Some {| a_n := []; a_b := X; a_c := []; a_r := [] |}
  | Continue => Some {| a_n := []; a_b := []; a_c := X; a_r := [] |}
  end.

Variable callr : list (option bool) -> nat -> list act -> Prop.
Hypothesis call_sound : forall args f X X' p s, call args f X = Some X' -> callr args f p -> In s X ->
  exists s', scan s p = Some s' /\ In s' X'.

Lemma loop_fix_spec bodyf n : forall X Iv ob, loop_fix bodyf n X = Some (Iv, ob) ->
  (forall x, In x X -> In x Iv) /\ bodyf Iv = Some ob /\ subsetb (a_n ob) Iv = true /\ subsetb (a_c ob) Iv = true.
Proof.
  induction n as [|m IH]; intros X Iv ob H; cbn [loop_fix] in H; destruct (bodyf X) as [o1|] eqn:E1; try discriminate;
    destruct (subsetb (a_n o1) X && subsetb (a_c o1) X) eqn:Es; try discriminate.
  - injection H as <- <-. apply andb_true_iff in Es as [P1 P2]. repeat split; auto.
  - injection H as <- <-. apply andb_true_iff in Es as [P1 P2]. repeat split; auto.
  - destruct (IH _ _ _ H) as (P1 & P2 & P3 & P4). repeat split; auto.
    intros x Hx. apply P1. apply In_union. right. apply In_union. right. exact Hx.
Qed.

Lemma aexec_sound s : forall p k, run_stmt callr penv s p k ->
  forall X o x, aexec s X = Some o -> In x X -> exists x', scan x p = Some x' /\ In x' (aget o k).
Proof.
  induction s as [ | l w | l | g wr | f args | a IHa b IHb | a IHa b IHb | i a IHa b IHb | b IHb | a IHa | | | ];
    intros p k Hrun X o x He Hx; cbn [aexec] in He.
  - inversion Hrun; subst. injection He as <-. exists x. split; [reflexivity|exact Hx].
  - inversion Hrun; subst. destruct (step_set X (AAcq l w)) as [X'|] eqn:E; [|discriminate]. injection He as <-.
    destruct (step_set_sound _ _ _ _ E Hx) as (x' & A1 & A2). exists x'. split; [cbn; rewrite A1; reflexivity|exact A2].
  - inversion Hrun; subst. destruct (step_set X (ARel l)) as [X'|] eqn:E; [|discriminate]. injection He as <-.
    destruct (step_set_sound _ _ _ _ E Hx) as (x' & A1 & A2). exists x'. split; [cbn; rewrite A1; reflexivity|exact A2].
  - inversion Hrun; subst. destruct (step_set X (AAcc g wr)) as [X'|] eqn:E; [|discriminate]. injection He as <-.
    destruct (step_set_sound _ _ _ _ E Hx) as (x' & A1 & A2). exists x'. split; [cbn; rewrite A1; reflexivity|exact A2].
  - inversion Hrun; subst. destruct (call args f X) as [X'|] eqn:E; [|discriminate]. injection He as <-.
    eapply call_sound; eauto.
  - (* Seq *)
    destruct (aexec a X) as [oa|] eqn:Ea; [|discriminate]. destruct (aexec b (a_n oa)) as [ob|] eqn:Eb; [|discriminate].
    injection He as <-. inversion Hrun as [ | | | | |? ? ? ? Ha Hk|? ? p1 p2 ? Ha Hb| | | | | | | | | | | | | ]; subst.
    + destruct (IHa _ _ Ha X oa x Ea Hx) as (x' & A1 & A2). exists x'. split; [exact A1|].
      destruct k; cbn in *; try congruence; apply In_union; left; exact A2.
    + destruct (IHa _ _ Ha X oa x Ea Hx) as (x1 & A1 & A2). cbn in A2.
      destruct (IHb _ _ Hb (a_n oa) ob x1 Eb A2) as (x2 & B1 & B2). exists x2. split; [rewrite scan_app, A1; exact B1|].
      destruct k; cbn in *; [exact B2|apply In_union; right; exact B2..].
  - (* If *)
    destruct (aexec a X) as [oa|] eqn:Ea; [|discriminate]. destruct (aexec b X) as [ob|] eqn:Eb; [|discriminate].
    injection He as <-. inversion Hrun; subst.
    + destruct (IHa _ _ H3 X oa x Ea Hx) as (x' & A1 & A2). exists x'. split; [exact A1|apply aunion_l; exact A2].
    + destruct (IHb _ _ H3 X ob x Eb Hx) as (x' & A1 & A2). exists x'. split; [exact A1|apply aunion_r; exact A2].
  - (* IfP *)
    inversion Hrun as [ | | | | | | | | |? ? ? ? ? Hi Ha|? ? ? ? ? Hi Hb| | | | | | | | | ]; subst.
    + destruct (nth i penv None) as [[|]|] eqn:En.
      * eapply IHa; eauto.
      * congruence.
      * destruct (aexec a X) as [oa|] eqn:Ea; [|discriminate]. destruct (aexec b X) as [ob|] eqn:Eb; [|discriminate].
        injection He as <-. destruct (IHa _ _ Ha X oa x Ea Hx) as (x' & A1 & A2). exists x'. split; [exact A1|apply aunion_l; exact A2].
    + destruct (nth i penv None) as [[|]|] eqn:En.
      * congruence.
      * eapply IHb; eauto.
      * destruct (aexec a X) as [oa|] eqn:Ea; [|discriminate]. destruct (aexec b X) as [ob|] eqn:Eb; [|discriminate].
        injection He as <-. destruct (IHb _ _ Hb X ob x Eb Hx) as (x' & A1 & A2). exists x'. split; [exact A1|apply aunion_r; exact A2].
  - (* Loop *)
    destruct (loop_fix (aexec b) loop_rounds X) as [[Iv ob]|] eqn:EI; [|discriminate]. injection He as <-.
    destruct (loop_fix_spec _ _ _ _ _ EI) as (Hincl & Eb & Es1 & Es2).
    assert (HxI : In x Iv) by (apply Hincl; exact Hx).
    clear Hx EI Hincl. revert x HxI. remember (Loop b) as lb eqn:Elb.
    induction Hrun as [ | | | | | | | | | | | b0 | b0 p q k k1 Hb _ Hk1 Hl IHl | b0 p Hb _ | b0 p Hb _ | | | | | ]; try discriminate;
      injection Elb as ->; intros x HxI.
    + exists x. split; [reflexivity|]. cbn. apply In_union. left. exact HxI.
    + destruct (IHb _ _ Hb Iv ob x Eb HxI) as (x1 & A1 & A2).
      assert (Hx1 : In x1 Iv).
      { destruct Hk1 as [-> | ->]; cbn in A2; [eapply subsetb_In; [exact Es1|exact A2]|eapply subsetb_In; [exact Es2|exact A2]]. }
      destruct (IHl eq_refl x1 Hx1) as (x2 & B1 & B2). exists x2. split; [rewrite scan_app, A1; exact B1|exact B2].
    + destruct (IHb _ _ Hb Iv ob x Eb HxI) as (x1 & A1 & A2). exists x1. split; [exact A1|]. cbn in *. apply In_union. right. exact A2.
    + destruct (IHb _ _ Hb Iv ob x Eb HxI) as (x1 & A1 & A2). exists x1. split; [exact A1|exact A2].
  - (* Catch *)
    destruct (aexec a X) as [oa|] eqn:Ea; [|discriminate]. injection He as <-.
    inversion Hrun as [ | | | | | | | | | | | | | | |? ? Ha|? ? ? Ha Hk| | | ]; subst.
    + destruct (IHa _ _ Ha X oa x Ea Hx) as (x' & A1 & A2). exists x'. split; [exact A1|]. cbn in *. apply In_union. right. exact A2.
    + destruct (IHa _ _ Ha X oa x Ea Hx) as (x' & A1 & A2). exists x'. split; [exact A1|].
      destruct k; cbn in *; try congruence. apply In_union. left. exact A2.
  - inversion Hrun; subst. injection He as <-. exists x. split; [reflexivity|exact Hx].
  - inversion Hrun; subst. injection He as <-. exists x. split; [reflexivity|exact Hx].
  - inversion Hrun; subst. injection He as <-. exists x. split; [reflexivity|exact Hx].
Qed.

End Exec.

(* calls: the callee's body with the actual boolean arguments; normal end and return both continue the caller *)
Fixpoint acall (fuel : nat) (args : list (option bool)) (f : nat) (X : aset) : option aset :=
  match fuel with
  | O => None
  | S fu =>
      match body f with
      | None => None
      | Some s => match aexec (acall fu) args s X with
                  | Some o => Some (union (a_n o) (a_r o))
                  | None => None
                  end
      end
  end.

Lemma acall_sound fuel : forall args f X X' p s, acall fuel args f X = Some X' -> run_call body fuel args f p -> In s X ->
  exists s', scan s p = Some s' /\ In s' X'.
Proof.
  induction fuel as [|fu IH]; intros args f X X' p s He Hr Hs; [contradiction|].
  cbn [acall] in He. cbn [run_call] in Hr. destruct Hr as (st & k & Hb & Hrun & Hk). rewrite Hb in He.
  destruct (aexec (acall fu) args st X) as [o|] eqn:Eo; [|discriminate]. injection He as <-.
  destruct (aexec_sound (acall fu) args (run_call body fu) IH st p k Hrun X o s Eo Hs) as (s' & A1 & A2).
  exists s'. split; [exact A1|]. apply In_union. destruct Hk as [-> | ->]; [left|right]; exact A2.
Qed.

(* an unknown argument allows every path a known one allows *)
Lemma run_stmt_noargs callr penv s p k : run_stmt callr penv s p k -> run_stmt callr [] s p k.
Proof.
  induction 1; try (econstructor; eauto; fail).
  - apply r_ifpl; [destruct i; discriminate|assumption].
  - apply r_ifpr; [destruct i; discriminate|assumption].
Qed.
Lemma run_call_noargs fuel args f p : run_call body fuel args f p -> run_call body fuel [] f p.
Proof.
  destruct fuel as [|fu]; [tauto|]. cbn [run_call]. intros (s & k & Hb & Hr & Hk). exists s, k.
  split; [exact Hb|]. split; [eapply run_stmt_noargs; exact Hr|exact Hk].
Qed.

(* the check for one function: from automaton state s0, whatever the boolean arguments, every path ends in
   a state accepted by fin and never runs into a violation *)
Definition acheck (fuel : nat) (f : nat) (s0 : A) (fin : A -> bool) : bool :=
  match acall fuel [] f [s0] with
  | Some X' => forallb fin X'
  | None => false
  end.

Theorem acheck_sound fuel f s0 fin : acheck fuel f s0 fin = true ->
  forall args p, run_call body fuel args f p -> exists s', scan s0 p = Some s' /\ fin s' = true.
Proof.
  unfold acheck. destruct (acall fuel [] f [s0]) as [X'|] eqn:E; [|discriminate]. intros Hf args p Hr.
  destruct (acall_sound fuel [] f [s0] X' p s0 E (run_call_noargs _ _ _ _ Hr) (or_introl eq_refl)) as (s' & A1 & A2).
  exists s'. split; [exact A1|]. rewrite forallb_forall in Hf. apply Hf. exact A2.
Qed.

End Aut.

(* ================================================================== (2) the single-hold automaton *)
Section SingleHold.
Variable l : nat.            (* the lock *)
Variable excl : bool.        (* the hold must be exclusive (mutex / wrlock) *)
Variable gs : list nat.      (* the globals whose accesses must lie inside the one hold *)

Inductive shst := ShOut | ShIn | ShUsed | ShDone.
(* ShOut: not inside a (qualifying) hold of l, no access to gs so far;  ShIn: inside, no access yet;
   ShUsed: inside, accessed;  ShDone: the hold containing the accesses has been released *)

Definition sh_eqb (x y : shst) : bool :=
  match x, y with ShOut, ShOut | ShIn, ShIn | ShUsed, ShUsed | ShDone, ShDone => true | _, _ => false end.
Lemma sh_eqb_eq x y : sh_eqb x y = true -> x = y.
Proof. destruct x, y; cbn; congruence. Qed.

Definition is_gs (a : act) : bool := match a with AAcc g _ => existsb (Nat.eqb g) gs | _ => false end.
Definition is_rel (a : act) : bool := match a with ARel l' => Nat.eqb l' l | _ => false end.
Definition is_acq (a : act) : bool := match a with AAcq l' w => Nat.eqb l' l && implb excl w | _ => false end.

Definition sh_tr (s : shst) (a : act) : option shst :=
  match s with
  | ShOut => if is_gs a then None else if is_acq a then Some ShIn else Some ShOut
  | ShIn => if is_gs a then Some ShUsed else if is_rel a then Some ShOut else Some ShIn
  | ShUsed => if is_rel a then Some ShDone else Some ShUsed
  | ShDone => if is_gs a then None else Some ShDone
  end.
Definition sh_fin (s : shst) : bool := match s with ShOut | ShDone => true | _ => false end.

Definition nogs (p : list act) : Prop := forall a, In a p -> is_gs a = false.

(* the shape of an accepted path *)
Definition sh_path (p : list act) : Prop :=
  nogs p \/
  exists pre w mid post, p = pre ++ AAcq l w :: mid ++ ARel l :: post /\ (excl = true -> w = true) /\
                         nogs pre /\ nogs post /\ ~ In (ARel l) mid.

Lemma nogs_nil : nogs []. Proof. intros a []. Qed.
Lemma nogs_cons a p : is_gs a = false -> nogs p -> nogs (a :: p).
Proof. intros Ha Hp b [<-|Hb]; [exact Ha|apply Hp; exact Hb]. Qed.
Lemma nogs_app p q : nogs p -> nogs q -> nogs (p ++ q).
Proof. intros Hp Hq a Ha. apply in_app_or in Ha as [Ha|Ha]; [apply Hp|apply Hq]; exact Ha. Qed.

Lemma is_rel_eq a : is_rel a = true -> a = ARel l.
Proof. destruct a; cbn; try discriminate. intros E. apply Nat.eqb_eq in E. subst. reflexivity. Qed.
Lemma is_rel_neq a : is_rel a = false -> a <> ARel l.
Proof. intros E ->. cbn in E. rewrite Nat.eqb_refl in E. discriminate. Qed.
Lemma is_acq_eq a : is_acq a = true -> exists w, a = AAcq l w /\ (excl = true -> w = true).
Proof.
  destruct a as [l' w| |]; cbn; try discriminate. intros E. apply andb_true_iff in E as [E1 E2]. apply Nat.eqb_eq in E1. subst.
  exists w. split; [reflexivity|]. intros ->. destruct w; [reflexivity|discriminate].
Qed.
Lemma rel_not_gs : is_gs (ARel l) = false. Proof. reflexivity. Qed.

Definition sscan := scan shst sh_tr.

(* what acceptance from each automaton state says about the rest of the path *)
Lemma sh_scan_shape p :
  (forall s, sscan ShDone p = Some s -> nogs p) /\
  (forall s, sscan ShUsed p = Some s -> sh_fin s = true ->
     exists mid post, p = mid ++ ARel l :: post /\ ~ In (ARel l) mid /\ nogs post) /\
  (forall s, sscan ShIn p = Some s -> sh_fin s = true ->
     exists mid post, p = mid ++ ARel l :: post /\ ~ In (ARel l) mid /\ (nogs post \/ (nogs mid /\ sh_path post))) /\
  (forall s, sscan ShOut p = Some s -> sh_fin s = true -> sh_path p).
Proof.
  induction p as [|a p (IHD & IHU & IHI & IHO)].
  - repeat split.
    + intros s _. apply nogs_nil.
    + intros s H Hf. cbn in H. injection H as <-. discriminate.
    + intros s H Hf. cbn in H. injection H as <-. discriminate.
    + intros s _ _. left. apply nogs_nil.
  - repeat split.
    + intros s H. unfold sscan in H. cbn [scan sh_tr] in H. destruct (is_gs a) eqn:Eg; [discriminate|].
      apply nogs_cons; [exact Eg|eapply IHD; exact H].
    + intros s H Hf. unfold sscan in H. cbn [scan sh_tr] in H. destruct (is_rel a) eqn:Er.
      * apply is_rel_eq in Er. subst a. exists [], p. split; [reflexivity|]. split; [intros []|]. eapply IHD. exact H.
      * destruct (IHU s H Hf) as (mid & post & -> & Hm & Hp). exists (a :: mid), post. split; [reflexivity|]. split; [|exact Hp].
        intros [E|Hin]; [apply (is_rel_neq _ Er); exact E|exact (Hm Hin)].
    + intros s H Hf. unfold sscan in H. cbn [scan sh_tr] in H. destruct (is_gs a) eqn:Eg.
      * destruct (IHU s H Hf) as (mid & post & -> & Hm & Hp). exists (a :: mid), post. split; [reflexivity|]. split; [|left; exact Hp].
        intros [E|Hin]; [subst a; discriminate|exact (Hm Hin)].
      * destruct (is_rel a) eqn:Er.
        -- apply is_rel_eq in Er. subst a. exists [], p. split; [reflexivity|]. split; [intros []|]. right. split; [apply nogs_nil|].
           eapply IHO; eauto.
        -- destruct (IHI s H Hf) as (mid & post & -> & Hm & Hp). exists (a :: mid), post. split; [reflexivity|].
           split; [intros [E|Hin]; [apply (is_rel_neq _ Er); exact E|exact (Hm Hin)]|].
           destruct Hp as [Hp|[Hp1 Hp2]]; [left; exact Hp|right; split; [apply nogs_cons; assumption|exact Hp2]].
    + intros s H Hf. unfold sscan in H. cbn [scan sh_tr] in H. destruct (is_gs a) eqn:Eg; [discriminate|].
      destruct (is_acq a) eqn:Ea.
      * apply is_acq_eq in Ea as (w & -> & Hw). destruct (IHI s H Hf) as (mid & post & -> & Hm & Hp).
        destruct Hp as [Hp|[Hp1 Hp2]].
        -- right. exists [], w, mid, post. repeat split; try assumption. apply nogs_nil.
        -- (* nothing accessed in this hold: the accesses (if any) are in a later one *)
           destruct Hp2 as [Hn|(pre2 & w2 & mid2 & post2 & -> & Hw2 & Hpre2 & Hpost2 & Hm2)].
           ++ left. apply nogs_cons; [reflexivity|]. apply nogs_app; [exact Hp1|]. apply nogs_cons; [reflexivity|exact Hn].
           ++ right. exists (AAcq l w :: mid ++ ARel l :: pre2), w2, mid2, post2.
              split; [cbn; rewrite <- app_assoc; reflexivity|]. repeat split; try assumption.
              apply nogs_cons; [reflexivity|]. apply nogs_app; [exact Hp1|]. apply nogs_cons; [reflexivity|exact Hpre2].
      * destruct (IHO s H Hf) as [Hn|(pre & w & mid & post & -> & Hw & Hpre & Hpost & Hm)].
        -- left. apply nogs_cons; assumption.
        -- right. exists (a :: pre), w, mid, post. repeat split; try assumption. apply nogs_cons; assumption.
Qed.

Theorem sh_scan_path p s : sscan ShOut p = Some s -> sh_fin s = true -> sh_path p.
Proof. intros H Hf. exact (proj2 (proj2 (proj2 (sh_scan_shape p))) s H Hf). Qed.

(* the executable fact and its meaning for every path of the function, whatever its boolean arguments *)
Variable body : nat -> option stmt.
Definition single_hold (fuel f : nat) : bool := acheck shst sh_eqb sh_tr body fuel f ShOut sh_fin.

Theorem single_hold_sound fuel f : single_hold fuel f = true ->
  forall args p, run_call body fuel args f p -> sh_path p.
Proof.
  intros H args p Hr. destruct (acheck_sound shst sh_eqb sh_eqb_eq sh_tr body fuel f ShOut sh_fin H args p Hr) as (s & A1 & A2).
  eapply sh_scan_path; eauto.
Qed.

End SingleHold.

(* ================================================================== (3) sections of single-hold paths do not interleave *)
Section Ordered.
Variable rank : nat -> nat.
Variable guard : nat -> option nat.

Lemma gs_in_mid gs l (b pre : list act) w mid post a0 k a :
  nth_error (b ++ (pre ++ AAcq l w :: mid ++ ARel l :: post) ++ a0) k = Some a ->
  length b <= k < length b + length (pre ++ AAcq l w :: mid ++ ARel l :: post) ->
  is_gs gs a = true -> nogs gs pre -> nogs gs post ->
  exists u, k = length (b ++ pre) + 1 + u /\ u < length mid.
Proof.
  intros Hn Hk Hg Hpre Hpost. rewrite app_length in *. cbn [length] in Hk. rewrite app_length in Hk. cbn [length] in Hk.
  rewrite nth_error_app2 in Hn by lia. rewrite nth_error_app1 in Hn by (rewrite app_length; cbn; rewrite app_length; cbn; lia).
  apply nth_error_app_cases in Hn as [[H1 H2]|[H1 H2]].
  - exfalso. apply nth_error_In in H2. rewrite (Hpre _ H2) in Hg. discriminate.
  - destruct (k - length b - length pre) as [|d] eqn:Ed; cbn in H2.
    + injection H2 as <-. discriminate.
    + apply nth_error_app_cases in H2 as [[H3 H4]|[H3 H4]].
      * exists d. split; [lia|exact H3].
      * destruct (d - length mid) as [|e] eqn:Ee; cbn in H4.
        -- injection H4 as <-. discriminate.
        -- exfalso. apply nth_error_In in H4. rewrite (Hpost _ H4) in Hg. discriminate.
Qed.

Lemma gs_not_in_nogs gs (b W a0 : list act) k a :
  nth_error (b ++ W ++ a0) k = Some a -> length b <= k < length b + length W -> is_gs gs a = true -> nogs gs W -> False.
Proof.
  intros Hn Hk Hg Hw. rewrite nth_error_app2 in Hn by lia. rewrite nth_error_app1 in Hn by lia.
  apply nth_error_In in Hn. rewrite (Hw _ Hn) in Hg. discriminate.
Qed.

(* Thread i's events contain (contiguously) a path W all of whose accesses to gsW lie in one EXCLUSIVE hold of
   l, thread j's contain a path R all of whose accesses to gsR lie in one hold of l (any mode, or exclusive).
   Then, in the trace, either every gsW-access of W precedes every gsR-access of R, or every gsR-access of R
   precedes every gsW-access of W: the reader sees all of the writer's accesses or none. *)
Theorem sh_paths_ordered c0 tr c i j l gsW gsR exclR bi W ai bj R aj :
  exec rank guard c0 tr c -> i <> j ->
  proj i tr = bi ++ W ++ ai -> proj j tr = bj ++ R ++ aj ->
  sh_path l true gsW W -> sh_path l exclR gsR R ->
  (forall x y k k' a b, ev_at tr i k x a -> length bi <= k < length bi + length W -> is_gs gsW a = true ->
                        ev_at tr j k' y b -> length bj <= k' < length bj + length R -> is_gs gsR b = true -> x < y) \/
  (forall x y k k' a b, ev_at tr i k x a -> length bi <= k < length bi + length W -> is_gs gsW a = true ->
                        ev_at tr j k' y b -> length bj <= k' < length bj + length R -> is_gs gsR b = true -> y < x).
Proof.
  intros He Hij Hpi Hpj HW HR.
  destruct HW as [HW|(preW & wW & midW & postW & EW & HwW & HpreW & HpostW & HmW)].
  { left. intros x y k k' a b Hx Hk Hg _ _ _. exfalso. apply ev_at_proj in Hx. rewrite Hpi in Hx. eapply gs_not_in_nogs; eauto. }
  destruct HR as [HR|(preR & wR & midR & postR & ER & HwR & HpreR & HpostR & HmR)].
  { left. intros x y k k' a b _ _ _ Hy Hk Hg. exfalso. apply ev_at_proj in Hy. rewrite Hpj in Hy. eapply gs_not_in_nogs; eauto. }
  rewrite (HwW eq_refl) in EW. subst W R.
  assert (Hpi' : proj i tr = (bi ++ preW) ++ AAcq l true :: midW ++ ARel l :: (postW ++ ai)).
  { rewrite Hpi. rewrite <- !app_assoc. cbn. rewrite <- !app_assoc. reflexivity. }
  assert (Hpj' : proj j tr = (bj ++ preR) ++ AAcq l wR :: midR ++ ARel l :: (postR ++ aj)).
  { rewrite Hpj. rewrite <- !app_assoc. cbn. rewrite <- !app_assoc. reflexivity. }
  destruct (sections_ordered rank guard c0 tr c i j l wR _ _ _ _ _ _ He Hij Hpi' HmW Hpj' HmR) as [Ho|Ho]; [left|right];
    intros x y k k' a b Hx Hk Hg Hy Hk' Hg'.
  - pose proof (ev_at_proj _ _ _ _ _ Hx) as Hnx. rewrite Hpi in Hnx.
    destruct (gs_in_mid gsW l bi preW true midW postW ai k a Hnx Hk Hg HpreW HpostW) as (u & -> & Hu).
    pose proof (ev_at_proj _ _ _ _ _ Hy) as Hny. rewrite Hpj in Hny.
    destruct (gs_in_mid gsR l bj preR wR midR postR aj k' b Hny Hk' Hg' HpreR HpostR) as (v & -> & Hv).
    eapply Ho; eauto.
  - pose proof (ev_at_proj _ _ _ _ _ Hx) as Hnx. rewrite Hpi in Hnx.
    destruct (gs_in_mid gsW l bi preW true midW postW ai k a Hnx Hk Hg HpreW HpostW) as (u & -> & Hu).
    pose proof (ev_at_proj _ _ _ _ _ Hy) as Hny. rewrite Hpj in Hny.
    destruct (gs_in_mid gsR l bj preR wR midR postR aj k' b Hny Hk' Hg' HpreR HpostR) as (v & -> & Hv).
    eapply Ho; eauto.
Qed.

End Ordered.

(* ================================================================== tables of facts *)
(* a fact (function, lock, exclusive?, globals) as generated by translator/gen_lockcfg.py *)
Definition sh_fact := (nat * nat * bool * list nat)%type.
Definition sh_check (body : nat -> option stmt) (fuel : nat) (f : sh_fact) : bool :=
  let '(fn, l, ex, gs) := f in single_hold l ex gs body fuel fn.

Lemma sh_check_sound body fuel tab fn l ex gs : forallb (sh_check body fuel) tab = true -> In (fn, l, ex, gs) tab ->
  forall args p, run_call body fuel args fn p -> sh_path l ex gs p.
Proof.
  intros H Hin. rewrite forallb_forall in H. specialize (H _ Hin). cbn in H. apply single_hold_sound. exact H.
Qed.

(* a hold that must be exclusive is in particular a hold *)
Lemma sh_path_weaken l gs p : sh_path l true gs p -> sh_path l false gs p.
Proof.
  intros [H|(pre & w & mid & post & E & _ & A & B & C)]; [left; exact H|].
  right. exists pre, w, mid, post. repeat split; try assumption. discriminate.
Qed.

(* ================================================================== executions in which two such paths run (for examples) *)
Lemma atomic_example rank guard body fuel n fw fr g pw rw pr rr :
  witness body fuel n fw (AAcc g true) = Some (pw, rw) -> witness body fuel n fr (AAcc g true) = Some (pr, rr) ->
  check_entry rank guard body fuel fw = true -> check_entry rank guard body fuel fr = true ->
  exists W R tr c, run_call body fuel [] fw W /\ run_call body fuel [] fr R /\
    In (AAcc g true) W /\ In (AAcc g true) R /\
    exec rank guard (map fresh_thread [[W]; [R]]) tr c /\ proj 0 tr = [] ++ W ++ [] /\ proj 1 tr = [] ++ R ++ [].
Proof.
  intros Ew Er Cw Cr. pose proof (witness_sound _ _ _ _ _ _ _ Ew) as Hw. pose proof (witness_sound _ _ _ _ _ _ _ Er) as Hr.
  destruct (two_threads_exec rank guard _ _ (check_entry_sound rank guard body fuel fw Cw _ Hw) (check_entry_sound rank guard body fuel fr Cr _ Hr))
    as (tr & c & He & P0 & P1).
  exists (pw ++ AAcc g true :: rw), (pr ++ AAcc g true :: rr), tr, c.
  repeat split; try assumption; apply in_or_app; right; left; reflexivity.
Qed.
