(* LockWait.v — "waiting for another thread's progress while holding a lock it needs" (C11).
   The lock semantics has no notion of spinning until another thread has done something; this file adds the
   corresponding safety fact on the lock programs. A WAIT POINT is an access to a marker global (the pop from a
   queue that only the receiver thread fills; the callers poll it in loops). The no-wait automaton tracks the
   locks a path has acquired and not yet released, with their modes, and rejects a wait point reached while a
   FORBIDDEN (lock, mode) is held - one that conflicts with an acquisition the receiver thread may perform.
   - nw_scan_path / no_wait_sound: an accepted function reaches, on every path, every wait point with no forbidden
     (lock, mode) acquired-and-not-released (decided by the verified path-automaton checker of LockAtomic.v);
   - fn_acqs / fn_acqs_sound: every acquisition on any path of a function is in its computed acquisition set
     (used for the receiver's lock set);
   - wait_point_holds_no_forbidden: in any execution, a thread that runs one such call and is about to perform a
     wait access holds no forbidden (lock, mode). *)
From Coq Require Import List Arith Bool Lia PeanoNat.
From LB Require Import LockLang LockSem LockTrace LockAtomic.
Import ListNotations.

(* ================================================================== the no-wait automaton *)
Section NoWait.
Variable forb : nat -> bool -> bool.      (* (lock, mode it is held in) must not be held at a wait point *)
Variable waits : list nat.                (* marker globals: an access to one of them is a wait point *)

Definition hst := list (nat * bool).      (* (lock, mode) acquired and not yet released, kept sorted without repetition *)

Definition hkey (e : nat * bool) : nat := 2 * fst e + (if snd e then 1 else 0).
Fixpoint hins (e : nat * bool) (s : hst) : hst :=
  match s with
  | [] => [e]
  | h :: t => if Nat.ltb (hkey e) (hkey h) then e :: h :: t
              else if Nat.eqb (hkey e) (hkey h) then h :: t else h :: hins e t
  end.
Definition hdel (l : nat) (s : hst) : hst := filter (fun h => negb (Nat.eqb (fst h) l)) s.

Lemma hkey_inj x y : hkey x = hkey y -> x = y.
Proof. destruct x as [a [|]], y as [b [|]]; unfold hkey; cbn; intros H; try (f_equal; lia); exfalso; lia. Qed.

Lemma in_hins e s x : In x (hins e s) <-> x = e \/ In x s.
Proof.
  induction s as [|h t IH]; cbn [hins In].
  - split; [intros [<-|[]]; left; reflexivity|intros [->|[]]; left; reflexivity].
  - destruct (Nat.ltb (hkey e) (hkey h)); cbn [In].
    + split; [intros [<-|H]; [left; reflexivity|right; exact H]|intros [->|H]; [left; reflexivity|right; exact H]].
    + destruct (Nat.eqb_spec (hkey e) (hkey h)) as [E|E]; cbn [In].
      * apply hkey_inj in E. subst h. split; [intros H; right; exact H|intros [->|H]; [left; reflexivity|exact H]].
      * rewrite IH. split; [intros [H|[H|H]]; [right; left; exact H|left; exact H|right; right; exact H]
                            |intros [H|[H|H]]; [right; left; exact H|left; exact H|right; right; exact H]].
Qed.
Lemma in_hdel l s x : In x (hdel l s) <-> In x s /\ fst x <> l.
Proof.
  unfold hdel. rewrite filter_In. split; intros [A B]; split; try exact A.
  - apply negb_true_iff in B. apply Nat.eqb_neq in B. exact B.
  - apply negb_true_iff. apply Nat.eqb_neq. exact B.
Qed.

Fixpoint hst_eqb (a b : hst) : bool :=
  match a, b with
  | [], [] => true
  | x :: a', y :: b' => Nat.eqb (fst x) (fst y) && Bool.eqb (snd x) (snd y) && hst_eqb a' b'
  | _, _ => false
  end.
Lemma hst_eqb_eq a b : hst_eqb a b = true -> a = b.
Proof.
  revert b. induction a as [|[x1 x2] a IH]; intros [|[y1 y2] b]; cbn; try discriminate; [reflexivity|].
  intros H. apply andb_true_iff in H as [H H3]. apply andb_true_iff in H as [H1 H2].
  apply Nat.eqb_eq in H1. apply Bool.eqb_prop in H2. subst. rewrite (IH b H3). reflexivity.
Qed.

Definition is_wait (a : act) : bool := match a with AAcc g _ => existsb (Nat.eqb g) waits | _ => false end.
Definition forb_held (s : hst) : bool := existsb (fun h => forb (fst h) (snd h)) s.

Definition nw_tr (s : hst) (a : act) : option hst :=
  match a with
  | AAcq l w => Some (hins (l, w) s)
  | ARel l => Some (hdel l s)
  | AAcc _ _ => if is_wait a && forb_held s then None else Some s
  end.

Definition nscan := scan hst nw_tr.

(* thread-local view: lock l was acquired in mode w in the sequence pre and not released since *)
Definition held_in (pre : list act) (l : nat) (w : bool) : Prop :=
  exists p1 p2, pre = p1 ++ AAcq l w :: p2 /\ ~ In (ARel l) p2.

(* the shape of an accepted path: no forbidden (lock, mode) is held at any wait point *)
Definition nw_path (p : list act) : Prop :=
  forall pre g wr rest l w, p = pre ++ AAcc g wr :: rest -> In g waits -> held_in pre l w -> forb l w = false.

Lemma nscan_keeps p : forall s s' l w, nscan s p = Some s' -> In (l, w) s -> ~ In (ARel l) p -> In (l, w) s'.
Proof.
  induction p as [|a p IH]; intros s s' l w H Hin Hn; cbn in H; [injection H as <-; exact Hin|].
  unfold nscan in H. cbn [scan] in H. destruct (nw_tr s a) as [s1|] eqn:E; [|discriminate].
  apply (IH s1 s' l w H); [|intro Hx; apply Hn; right; exact Hx].
  destruct a as [l0 w0|l0|g wr]; cbn in E.
  - injection E as <-. apply in_hins. right. exact Hin.
  - injection E as <-. apply in_hdel. split; [exact Hin|]. cbn. intros ->. apply Hn. left. reflexivity.
  - destruct (_ && _); [discriminate|]. injection E as <-. exact Hin.
Qed.

Lemma nscan_held pre s0 s l w : nscan s0 pre = Some s -> held_in pre l w -> In (l, w) s.
Proof.
  intros H (p1 & p2 & -> & Hn). unfold nscan in H. rewrite scan_app in H.
  destruct (scan hst nw_tr s0 p1) as [s1|]; [|discriminate]. cbn [scan nw_tr] in H.
  eapply nscan_keeps; [exact H| |exact Hn]. apply in_hins. left. reflexivity.
Qed.

Theorem nw_scan_path p s : nscan [] p = Some s -> nw_path p.
Proof.
  intros H pre g wr rest l w -> Hg Hh. unfold nscan in H. rewrite scan_app in H.
  destruct (scan hst nw_tr [] pre) as [s1|] eqn:E1; [|discriminate]. cbn [scan] in H.
  destruct (nw_tr s1 (AAcc g wr)) as [s2|] eqn:E2; [|discriminate]. cbn in E2.
  assert (Hw : existsb (Nat.eqb g) waits = true) by (apply existsb_exists; exists g; split; [exact Hg|apply Nat.eqb_refl]).
  rewrite Hw in E2. cbn in E2. destruct (forb_held s1) eqn:Ef; [discriminate|].
  pose proof (nscan_held pre [] s1 l w E1 Hh) as Hin.
  destruct (forb l w) eqn:Efb; [|reflexivity].
  assert (forb_held s1 = true) by (apply existsb_exists; exists (l, w); split; [exact Hin|exact Efb]). congruence.
Qed.

(* conversely (for refutations): what the automaton tracks was really acquired and not released, and a rejected
   path really reaches a wait point with a forbidden (lock, mode) held *)
Lemma nscan_tracks p : forall s s' l w, nscan s p = Some s' -> In (l, w) s' ->
  (In (l, w) s /\ ~ In (ARel l) p) \/ held_in p l w.
Proof.
  induction p as [|a p IH]; intros s s' l w H Hin; unfold nscan in H; cbn [scan] in H.
  - injection H as <-. left. split; [exact Hin|intros []].
  - destruct (nw_tr s a) as [s1|] eqn:E; [|discriminate].
    destruct (IH s1 s' l w H Hin) as [[A B]|(p1 & p2 & -> & Hn)].
    + destruct a as [l0 w0|l0|g wr]; cbn in E.
      * injection E as <-. apply in_hins in A as [A|A].
        -- injection A as -> ->. right. exists [], p. split; [reflexivity|exact B].
        -- left. split; [exact A|]. intros [Hx|Hx]; [discriminate|exact (B Hx)].
      * injection E as <-. apply in_hdel in A as [A1 A2]. left. split; [exact A1|].
        intros [Hx|Hx]; [injection Hx as ->; apply A2; reflexivity|exact (B Hx)].
      * destruct (_ && _); [discriminate|]. injection E as <-. left. split; [exact A|].
        intros [Hx|Hx]; [discriminate|exact (B Hx)].
    + right. exists (a :: p1), p2. split; [reflexivity|exact Hn].
Qed.

Lemma nscan_none p : forall s, nscan s p = None ->
  exists pre g wr rest s1, p = pre ++ AAcc g wr :: rest /\ nscan s pre = Some s1 /\ In g waits /\ forb_held s1 = true.
Proof.
  induction p as [|a p IH]; intros s H; unfold nscan in H; cbn [scan] in H; [discriminate|].
  destruct (nw_tr s a) as [s1|] eqn:E.
  - destruct (IH s1 H) as (pre & g & wr & rest & s2 & -> & A & B & C).
    exists (a :: pre), g, wr, rest, s2. split; [reflexivity|]. split; [unfold nscan; cbn [scan]; rewrite E; exact A|]. split; assumption.
  - destruct a as [l0 w0|l0|g wr]; cbn in E; try discriminate.
    destruct (existsb (Nat.eqb g) waits) eqn:Ew; cbn in E; [|discriminate]. destruct (forb_held s) eqn:Ef; [|discriminate].
    exists [], g, wr, p, s. split; [reflexivity|]. split; [reflexivity|]. split; [|exact Ef].
    apply existsb_exists in Ew as (x & Hx & Ex). apply Nat.eqb_eq in Ex. subst. exact Hx.
Qed.

Theorem nw_refute p : nscan [] p = None ->
  exists pre g wr rest l w, p = pre ++ AAcc g wr :: rest /\ In g waits /\ held_in pre l w /\ forb l w = true.
Proof.
  intros H. destruct (nscan_none p [] H) as (pre & g & wr & rest & s1 & -> & A & B & C).
  unfold forb_held in C. apply existsb_exists in C as ([l w] & Hin & Hf). cbn in Hf.
  exists pre, g, wr, rest, l, w. split; [reflexivity|]. split; [exact B|]. split; [|exact Hf].
  destruct (nscan_tracks pre [] s1 l w A Hin) as [[[] _]|Hh]. exact Hh.
Qed.

Variable body : nat -> option stmt.
Definition no_wait (fuel f : nat) : bool := acheck hst hst_eqb nw_tr body fuel f [] (fun _ => true).

Theorem no_wait_sound fuel f : no_wait fuel f = true -> forall args p, run_call body fuel args f p -> nw_path p.
Proof.
  intros H args p Hr. destruct (acheck_sound hst hst_eqb hst_eqb_eq nw_tr body fuel f [] (fun _ => true) H args p Hr) as (s & A & _).
  eapply nw_scan_path. exact A.
Qed.

End NoWait.

(* ================================================================== the acquisitions a function can perform *)
Section Acqs.
Variable body : nat -> option stmt.

Definition amem (e : nat * bool) (s : list (nat * bool)) : bool := existsb (fun h => Nat.eqb (fst h) (fst e) && Bool.eqb (snd h) (snd e)) s.
Definition aadd (e : nat * bool) (s : list (nat * bool)) := if amem e s then s else e :: s.
Definition aunion2 (a b : list (nat * bool)) := fold_right aadd b a.

Lemma amem_In e s : amem e s = true -> In e s.
Proof.
  unfold amem. intros H. apply existsb_exists in H as ([a b] & Hin & E). apply andb_true_iff in E as [E1 E2].
  apply Nat.eqb_eq in E1. apply Bool.eqb_prop in E2. destruct e; cbn in *. subst. exact Hin.
Qed.
Lemma In_aadd x e s : In x s \/ x = e -> In x (aadd e s).
Proof. unfold aadd. destruct (amem e s) eqn:E; intros [H|H]; [exact H|subst; apply amem_In; exact E|right; exact H|left; symmetry; exact H]. Qed.
Lemma In_aunion2 x a b : In x a \/ In x b -> In x (aunion2 a b).
Proof.
  induction a as [|h t IH]; cbn; [tauto|]. intros [[E|H]|H]; apply In_aadd; [right; symmetry; exact E|left; apply IH; left; exact H|left; apply IH; right; exact H].
Qed.

Fixpoint stmt_acqs (callacq : nat -> list (nat * bool)) (s : stmt) : list (nat * bool) :=
  match s with
  | Acq l w => [(l, w)]
  | Call f _ => callacq f
  | Seq a b | If a b | IfP _ a b => aunion2 (stmt_acqs callacq a) (stmt_acqs callacq b)
  | Loop a | Catch a => stmt_acqs callacq a
  | _ => []
  end.
Fixpoint fn_acqs (fuel f : nat) : list (nat * bool) :=
  match fuel with
  | O => []
  | S fu => match body f with Some s => stmt_acqs (fn_acqs fu) s | None => [] end
  end.

Lemma stmt_acqs_sound callacq (callr : list (option bool) -> nat -> list act -> Prop) penv l w :
  (forall args f p, callr args f p -> In (AAcq l w) p -> In (l, w) (callacq f)) ->
  forall s p k, run_stmt callr penv s p k -> In (AAcq l w) p -> In (l, w) (stmt_acqs callacq s).
Proof.
  intros Hc s p k Hr. induction Hr; cbn [stmt_acqs]; intros Hin; try (destruct Hin as [E|[]]; discriminate E); try contradiction.
  - destruct Hin as [E|[]]. injection E as -> ->. left. reflexivity.
  - eapply Hc; eauto.
  - apply In_aunion2. left. auto.
  - apply In_aunion2. apply in_app_or in Hin as [Hin|Hin]; [left|right]; auto.
  - apply In_aunion2. left. auto.
  - apply In_aunion2. right. auto.
  - apply In_aunion2. left. auto.
  - apply In_aunion2. right. auto.
  - apply in_app_or in Hin as [Hin|Hin]; auto.
  - auto.
  - auto.
  - auto.
  - auto.
Qed.

Theorem fn_acqs_sound fuel : forall args f p l w, run_call body fuel args f p -> In (AAcq l w) p -> In (l, w) (fn_acqs fuel f).
Proof.
  induction fuel as [|fu IH]; intros args f p l w Hr Hin; [contradiction|].
  cbn [run_call] in Hr. destruct Hr as (s & k & Hb & Hrun & _). cbn [fn_acqs]. rewrite Hb.
  eapply stmt_acqs_sound; [|exact Hrun|exact Hin]. intros args' f' p' Hc Hi. eapply IH; eauto.
Qed.

End Acqs.

(* ================================================================== semantic corollary *)
Section Sem.
Variable rank : nat -> nat.
Variable guard : nat -> option nat.

(* a thread's program is what it has done (its events in the trace) followed by what it still has to do *)
Lemma exec_proj_prog c0 tr c : exec rank guard c0 tr c -> forall i t0, nth_error c0 i = Some t0 ->
  exists t, nth_error c i = Some t /\ th_prog t0 = proj i tr ++ th_prog t.
Proof.
  induction 1 as [c|c [j a] c1 tr c2 Hs _ IH]; intros i t0 Ht0; [exists t0; split; [exact Ht0|reflexivity]|].
  destruct (lstep_thread _ _ _ _ _ _ Hs) as (t & t' & Ht & Ht' & _ & Hp & Hoth).
  destruct (Nat.eq_dec j i) as [->|Hji].
  - rewrite Ht0 in Ht. injection Ht as <-. destruct (IH i t' Ht') as (t2 & A & B). exists t2. split; [exact A|].
    rewrite proj_cons_same. cbn. rewrite Hp, B. reflexivity.
  - destruct (IH i t0) as (t2 & A & B); [rewrite Hoth by (intro E; apply Hji; symmetry; exact E); exact Ht0|].
    exists t2. split; [exact A|]. rewrite proj_cons_other by exact Hji. exact B.
Qed.

(* no thread ever holds a lock twice *)
Definition all_nodup (c : config) : Prop := forall t, In t c -> NoDup (locks_of (th_held t)).

Lemma NoDup_locks_insert l w H : (forall h, In h H -> rank (fst h) < rank l) -> NoDup (locks_of H) -> NoDup (locks_of (insert (l, w) H)).
Proof.
  intros Hr Hd.
  assert (Hnot : ~ In l (locks_of H)).
  { intro Hin. apply in_locks in Hin as (w' & Hin). specialize (Hr _ Hin). cbn in Hr. lia. }
  induction H as [|h t IH]; cbn; [constructor; [intros []|constructor]|].
  destruct (Nat.leb l (fst h)); cbn; [constructor; assumption|].
  inversion Hd as [|? ? Hh Ht]; subst. constructor.
  - intro Hin. change (In (fst h) (locks_of (insert (l, w) t))) in Hin. apply in_locks in Hin as (w' & Hin).
    apply in_insert in Hin as [E|Hin].
    + injection E as E _. apply Hnot. left. exact E.
    + apply Hh. apply in_locks. exists w'. exact Hin.
  - apply IH; [intros h' Hh'; apply Hr; right; exact Hh'|exact Ht|intro Hin; apply Hnot; right; exact Hin].
Qed.

Lemma NoDup_locks_remove1 l H : NoDup (locks_of H) -> NoDup (locks_of (remove1 l H)) /\ ~ In l (locks_of (remove1 l H)).
Proof.
  induction H as [|h t IH]; cbn; intros Hd; [split; [constructor|tauto]|].
  inversion Hd as [|? ? Hh Ht]; subst.
  destruct (Nat.eqb_spec l (fst h)) as [->|Hn]; [split; assumption|].
  destruct (IH Ht) as [A B]. cbn. split.
  - constructor; [|exact A]. intro Hin. apply Hh. apply in_locks in Hin as (w & Hin). apply in_locks. exists w. eapply remove1_incl; eauto.
  - intros [E|Hin]; [congruence|contradiction].
Qed.

Lemma lstep_nodup c lab c' : lstep rank guard c lab c' -> all_nodup c -> all_nodup c'.
Proof.
  intros Hs Hn. inversion Hs as [pre t t' post a Hts Hp]; subst. intros x Hin.
  assert (Ht : NoDup (locks_of (th_held t))) by (apply Hn; apply in_or_app; right; left; reflexivity).
  apply in_app_or in Hin as [Hin|[<-|Hin]]; [apply Hn; apply in_or_app; left; exact Hin| |apply Hn; apply in_or_app; right; right; exact Hin].
  inversion Hts as [H l p H' Hf Ha|H l p H' Hf Ha|H l p H' Ha|H g wr p Ha]; subst; cbn [th_held] in *.
  - cbn [act_ok] in Ha. destruct (forallb _ H) eqn:Ef; [|discriminate]. injection Ha as <-.
    apply NoDup_locks_insert; [|exact Ht]. intros h Hh. rewrite forallb_forall in Ef. apply Nat.ltb_lt. apply Ef. exact Hh.
  - cbn [act_ok] in Ha. destruct (forallb _ H) eqn:Ef; [|discriminate]. injection Ha as <-.
    apply NoDup_locks_insert; [|exact Ht]. intros h Hh. rewrite forallb_forall in Ef. apply Nat.ltb_lt. apply Ef. exact Hh.
  - cbn [act_ok] in Ha. destruct (holds l H); [|discriminate]. injection Ha as <-. apply NoDup_locks_remove1. exact Ht.
  - exact Ht.
Qed.

Lemma exec_nodup c tr c' : exec rank guard c tr c' -> all_nodup c -> all_nodup c'.
Proof. induction 1 as [c|c lab c1 tr c2 Hs _ IH]; intros Hn; [exact Hn|]. apply IH. eapply lstep_nodup; eauto. Qed.

Lemma exec_snoc c0 tr lab c : exec rank guard c0 (tr ++ [lab]) c -> exists c', exec rank guard c0 tr c' /\ lstep rank guard c' lab c.
Proof.
  intros H. apply exec_app in H as (c' & A & B). exists c'. split; [exact A|].
  inversion B as [|? ? c1 ? ? Hs Hr]; subst. inversion Hr; subst. exact Hs.
Qed.

(* a lock a thread holds was acquired by it earlier in the trace, in that mode, and not released since *)
Lemma held_was_acquired c0 : (forall t, In t c0 -> th_held t = []) ->
  forall tr c i l w, exec rank guard c0 tr c -> holds_at c i l w -> held_in (proj i tr) l w.
Proof.
  intros H0. induction tr as [|[j a] tr IH] using rev_ind; intros c i l w He (t & Ht & Hin).
  - inversion He; subst. rewrite (H0 t) in Hin by (eapply nth_error_In; exact Ht). contradiction.
  - apply exec_snoc in He as (c' & He & Hs).
    assert (Hnd : all_nodup c').
    { eapply exec_nodup; [exact He|]. intros x Hx. rewrite (H0 x Hx). constructor. }
    destruct (lstep_thread _ _ _ _ _ _ Hs) as (u & u' & Hu & Hu' & Hts & Hp & Hoth).
    rewrite proj_app.
    destruct (Nat.eq_dec j i) as [->|Hji].
    + rewrite Ht in Hu'. injection Hu' as <-. rewrite proj_cons_same. cbn [proj map filter].
      assert (Hext : forall b, held_in (proj i tr) l w -> b <> ARel l -> held_in (proj i tr ++ [b]) l w).
      { intros b (p1 & p2 & E & Hn) Hb. exists p1, (p2 ++ [b]). split; [rewrite E, <- app_assoc; reflexivity|].
        intro Hx. apply in_app_or in Hx as [Hx|[Hx|[]]]; [exact (Hn Hx)|apply Hb; exact Hx]. }
      assert (Hudup : NoDup (locks_of (th_held u))) by (apply Hnd; eapply nth_error_In; exact Hu).
      inversion Hts as [H l0 p H' Hf Ha|H l0 p H' Hf Ha|H l0 p H' Ha|H g wr p Ha]; subst; cbn [th_held th_prog] in *; injection Hp as <-.
      * cbn [act_ok] in Ha. destruct (forallb _ H); [|discriminate]. injection Ha as <-.
        apply in_insert in Hin as [E|Hin].
        -- injection E as -> ->. exists (proj i tr), []. split; [reflexivity|intros []].
        -- apply Hext; [|discriminate]. eapply IH; [exact He|]. eexists. split; [exact Hu|exact Hin].
      * cbn [act_ok] in Ha. destruct (forallb _ H); [|discriminate]. injection Ha as <-.
        apply in_insert in Hin as [E|Hin].
        -- injection E as -> ->. exists (proj i tr), []. split; [reflexivity|intros []].
        -- apply Hext; [|discriminate]. eapply IH; [exact He|]. eexists. split; [exact Hu|exact Hin].
      * cbn [act_ok] in Ha. destruct (holds l0 H); [|discriminate]. injection Ha as <-.
        destruct (NoDup_locks_remove1 l0 H Hudup) as [_ Hnot].
        assert (Hne : l <> l0). { intros ->. apply Hnot. apply in_locks. exists w. exact Hin. }
        apply Hext; [|intro E; injection E as E; apply Hne; symmetry; exact E].
        eapply IH; [exact He|]. eexists. split; [exact Hu|eapply remove1_incl; exact Hin].
      * apply Hext; [|discriminate]. eapply IH; [exact He|]. eexists. split; [exact Hu|exact Hin].
    + rewrite proj_cons_other by exact Hji. cbn. rewrite app_nil_r. eapply IH; [exact He|].
      exists t. split; [rewrite <- Hoth by (intro E; apply Hji; symmetry; exact E); exact Ht|exact Hin].
Qed.

(* Any execution from fresh threads, any number of threads, any interleaving: a thread that runs ONE path p accepted
   by the no-wait check and is about to perform a wait access holds no forbidden (lock, mode). *)
Theorem wait_point_holds_no_forbidden forb waits (tps : list (list (list act))) tr c i p t g wr rest :
  nth_error tps i = Some [p] -> nw_path forb waits p ->
  exec rank guard (map fresh_thread tps) tr c ->
  nth_error c i = Some t -> th_prog t = AAcc g wr :: rest -> In g waits ->
  forall l w, In (l, w) (th_held t) -> forb l w = false.
Proof.
  intros Hi Hnw He Ht Hp Hg l w Hin.
  assert (H0 : nth_error (map fresh_thread tps) i = Some (fresh_thread [p])) by (rewrite nth_error_map, Hi; reflexivity).
  destruct (exec_proj_prog _ _ _ He i _ H0) as (t2 & A & B). rewrite Ht in A. injection A as <-.
  cbn [fresh_thread th_prog concat] in B. rewrite app_nil_r, Hp in B.
  assert (Hh : held_in (proj i tr) l w).
  { eapply held_was_acquired; [|exact He|exists t; split; [exact Ht|exact Hin]].
    intros x Hx. apply in_map_iff in Hx as (ps & <- & _). reflexivity. }
  eapply Hnw; [exact B|exact Hg|exact Hh].
Qed.

End Sem.
