(* Properties_C11.v — C11: no call blocks forever: locks balanced on every path, one global order.
   LockCfg.v is regenerated from the source on every run by translator/gen_lockcfg.py. *)
From Coq Require Import List Arith Bool.
From LB Require Import LockLang LockCfg LockProofs LockSem LockTrace LockWait LockWaitC11.
Import ListNotations.

(* the programs a thread may run: paths of the translated public functions and internal thread mains *)
Definition entry_path (p : list act) : Prop :=
  exists f, In f (public_entries ++ thread_mains) /\ run_call body call_depth [] f p.

(* Every path (error returns included) of every public function and every internal thread acquires
   locks only in increasing rank - never one it already holds -, releases only locks it holds and
   returns with no lock held. *)
Theorem C11_balanced_ordered : forall p, entry_path p -> acts_ok rank no_guard [] p = Some [].
Proof. exact entry_paths_ok. Qed.
Print Assumptions C11_balanced_ordered.

(* No combination of concurrently running calls and internal threads can deadlock: in every
   configuration reachable by any interleaving of threads that each run any sequence of such paths,
   if some thread is unfinished then some thread can take a step (mutexes and write locks exclusive,
   read locks shared). *)
Theorem C11_no_deadlock : forall (tps : list (list (list act))) c,
  Forall (Forall entry_path) tps ->
  reach rank no_guard (map fresh_thread tps) c -> unfinished c -> exists c', step rank no_guard c c'.
Proof. exact no_deadlock_entries. Qed.
Print Assumptions C11_no_deadlock.

(* and every step consumes one action, so every execution of finitely many calls ends *)
Theorem C11_terminates : forall c c', step rank no_guard c c' -> remaining c' < remaining c.
Proof. exact (step_decreases rank no_guard). Qed.
Print Assumptions C11_terminates.

(* the generated ranks are a strict order on the locks that are ever nested: distinct locks, distinct ranks *)
Theorem C11_ranks_distinct : NoDup rank_tab /\ length rank_tab = lock_count.
Proof. exact ranks_nodup. Qed.

(* ---- waiting for the receiver thread ----
   The lock semantics above has no notion of "spinning until another thread has made progress": bidib_send_sys_reset
   (and with it every start) polls the intern uplink queue (bidib_read_intern_message, found in the source as the pop
   from the queue only the receiver thread fills; its callers loop until an answer is there). If the polling thread holds
   a lock that some handler of the receiver thread needs, a spontaneous message of that type blocks the receiver, the
   answer is never queued and the call never returns - with all locks balanced and ordered. The following facts are
   decided by the verified path-automaton checker (LockAtomic.acheck_sound) on the regenerated lock programs. *)

(* the receiver thread acquires only the (lock, mode) pairs listed in rx_acqs, on every path *)
Theorem C11_receiver_acquires_only_listed : forall args p l w,
  run_call body call_depth args rx_main p -> In (AAcq l w) p -> In (l, w) rx_acqs.
Proof. exact rx_acquires_only_listed. Qed.
Print Assumptions C11_receiver_acquires_only_listed.

(* static, every path of every public function and of every thread main other than the receiver: at every wait point
   (access to a marker in wait_globals), a lock acquired on that path in mode w and not yet released is not forbidden:
   wait_forb l w = false, i.e. (C11_wait_forb_meaning) unless it is the wait queue's own mutex it conflicts with NO
   acquisition the receiver can perform (it is held shared, and the receiver only ever takes it shared) *)
Theorem C11_no_wait_holding_receiver_lock : forall f args p pre g wr rest l w,
  In f nonrx_entries -> run_call body call_depth args f p ->
  p = pre ++ AAcc g wr :: rest -> In g wait_globals -> held_in pre l w -> wait_forb l w = false.
Proof. exact no_wait_holding_receiver_lock. Qed.
Print Assumptions C11_no_wait_holding_receiver_lock.

Theorem C11_wait_forb_meaning : forall l w, wait_forb l w = false ->
  existsb (Nat.eqb l) wait_mutexes = false -> forall w', In (l, w') rx_acqs -> w = false /\ w' = false.
Proof. exact wait_forb_meaning. Qed.
Print Assumptions C11_wait_forb_meaning.

(* semantic, any execution of any number of threads (LockTrace.exec): thread i runs one call of such an entry and is about
   to perform a wait access; if it holds l in mode w (not the wait queue's own mutex) and the
   receiver's main can acquire (l, w') on some path, then both modes are shared: the waiting thread never blocks the
   receiver thread *)
Theorem C11_waiter_never_blocks_receiver : forall (tps : list (list (list act))) tr c i f args p t g wr rest l w w' argsr pr,
  nth_error tps i = Some [p] -> In f nonrx_entries -> run_call body call_depth args f p ->
  exec rank guard (map fresh_thread tps) tr c ->
  nth_error c i = Some t -> th_prog t = AAcc g wr :: rest -> In g wait_globals ->
  In (l, w) (th_held t) ->
  run_call body call_depth argsr rx_main pr -> In (AAcq l w') pr ->
  existsb (Nat.eqb l) wait_mutexes = false ->
  w = false /\ w' = false.
Proof. exact waiter_never_blocks_receiver. Qed.
Print Assumptions C11_waiter_never_blocks_receiver.

(* non-vacuity (ex_wait_present: the translator found the witnesses): a concrete path of bidib_send_sys_reset reaches a
   wait point and nothing forbidden is held there; bidib_boards_rwlock held exclusively IS forbidden; and the checker
   REJECTS bidib_send_sys_reset once the releases of bidib_boards_rwlock are removed from
   bidib_state_init_allocation_table, so that the lock stays held over the polling (what seed C11-e amounts to) *)
Example C11_no_wait_nonvacuous : ex_wait_present = true ->
  In ex_wait_entry nonrx_entries /\ In ex_wait_global wait_globals /\ wait_forb ex_wait_lock true = true /\
  (exists pre wr rest, run_call body call_depth [] ex_wait_entry (pre ++ AAcc ex_wait_global wr :: rest) /\
     forall l w, held_in pre l w -> wait_forb l w = false) /\
  no_wait wait_forb wait_globals body call_depth ex_wait_entry = true /\
  no_wait wait_forb wait_globals (body_norel ex_wait_fn ex_wait_lock) call_depth ex_wait_entry = false.
Proof. exact no_wait_example. Qed.

(* non-vacuity: the checker rejects a function that returns with a lock held on one path, a double
   acquisition, and an inverted nesting *)
Example C11_checker_rejects :
  let body1 (f : nat) := match f with
                         | 0 => Some (Seq (Acq 1 false) (Seq (If Return Skip) (Rel 1)))
                         | 1 => Some (Seq (Acq 1 true) (Acq 1 true))
                         | 2 => Some (Seq (Acq 12 true) (Seq (Acq 11 true) (Seq (Rel 11) (Rel 12))))
                         | 3 => Some (Seq (Acq 11 true) (Seq (Acq 12 true) (Seq (Rel 12) (Rel 11))))
                         | _ => None end in
  map (check_entry rank no_guard body1 3) [0; 1; 2; 3] = [false; false; false; true].
Proof. vm_compute. reflexivity. Qed.
