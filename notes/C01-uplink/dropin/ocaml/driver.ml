(* driver.ml — runs the extracted Coq models on the same scripts as harness/drv.c and prints the
   same canonical observation lines. Thin glue only: parsing, int<->N conversion, printing. *)
open Model

let rec pos_of_int (i : int) : positive =
  if i = 1 then XH else if i land 1 = 1 then XI (pos_of_int (i lsr 1)) else XO (pos_of_int (i lsr 1))
let n_of_int (i : int) : n = if i = 0 then N0 else Npos (pos_of_int i)
let rec int_of_pos (p : positive) : int = match p with XH -> 1 | XO q -> 2 * int_of_pos q | XI q -> 2 * int_of_pos q + 1
let int_of_n (x : n) : int = match x with N0 -> 0 | Npos p -> int_of_pos p

let unhex (s : string) : n list =
  if s = "-" then [] else
    let k = String.length s / 2 in
    List.init k (fun i -> n_of_int (int_of_string ("0x" ^ String.sub s (2 * i) 2)))
let hex (l : n list) : string =
  if l = [] then "-" else String.concat "" (List.map (fun b -> Printf.sprintf "%02x" (int_of_n b)) l)

let split_ws (s : string) : string list = List.filter (fun x -> x <> "") (String.split_on_char ' ' s)

let buf = Buffer.create 65536
let out s = Buffer.add_string buf s; Buffer.add_char buf '\n'
let flush_out () = print_string (Buffer.contents buf); Buffer.clear buf

(* ---------------------------------------------------------------- mode tx : Framing *)
(* C01 histories: add/flush/cap are the direct operations; `rx <framed hex>` goes through the model of
   the receive path (rx_hops) and yields the Announce steps; `start <debug-after>` / `debugmode` hold
   the low-level debug flag the announcements are delivered under *)
let mode_tx () =
  let st = ref tx_init and debug = ref true and rs = ref rx_init in
  let emit ps = List.iter (fun c -> out ("w " ^ hex c)) (wire_chunks ps) in
  let step h = let (s, ps) = h_step !st h in st := s; emit ps in
  (try while true do
    let line = input_line stdin in
    match split_ws line with
    | [] -> ()
    | "case" :: id :: _ -> out ("case " ^ id)
    | "start" :: r -> st := tx_init; rs := rx_init; debug := (match r with d :: _ -> d <> "0" | [] -> true); out "start 0"
    | "debugmode" :: d :: _ -> debug := (d <> "0")
    | "cap" :: v :: _ -> step (Op (SetCap (n_of_int (int_of_string v))))
    | "add" :: h :: _ -> step (Op (Add (unhex h)))
    | "flush" :: _ -> step (Op Flush)
    | "rx" :: h :: _ -> let (r1, hops) = rx_hops !debug !rs (unhex h) in rs := r1; List.iter step hops
    | "discard" :: _ -> ()
    | "mark" :: r -> out ("mark " ^ String.concat " " r)
    | c :: _ when String.length c > 0 && c.[0] = '#' -> ()
    | c :: _ -> out ("unknown-command " ^ c)
  done with End_of_file -> ());
  flush_out ()

(* oracle for C01: reads "ops" lines then a wire; checks ref_decode wire = added messages *)
let mode_tx_oracle () =
  let msgs = ref [] and wire = ref [] and id = ref "?" in
  let verdict () =
    if !id <> "?" then begin
      let w = List.concat (List.rev !wire) in
      let ok = (match ref_decode w with Some ms -> ms = List.rev !msgs | None -> false) in
      out (Printf.sprintf "case %s" !id); out (if ok then "oracle ok" else "oracle FAIL")
    end in
  (try while true do
    let line = input_line stdin in
    match split_ws line with
    | "case" :: i :: _ -> verdict (); id := i; msgs := []; wire := []
    | "add" :: h :: _ -> msgs := unhex h :: !msgs
    | "w" :: h :: _ -> wire := unhex h :: !wire
    | _ -> ()
  done with End_of_file -> ());
  verdict (); flush_out ()

(* ---------------------------------------------------------------- mode flow : NodeFlow + Rx *)
let item_str (it : rx_item) : string =
  match it with
  | Delivered m -> "d " ^ hex m.m_raw
  | Dropped -> "badcrc"
  | Malformed -> "malformed"
  | Faulted _ -> "fault"

let mode_flow () =
  let st = ref (flow_init, n_of_int 1000000) and rs = ref rx_init in
  let emit ps = List.iter (fun c -> out ("w " ^ hex c)) (wire_chunks ps) in
  let step e = let (s, ps) = flow_step !st e in st := s; emit ps in
  let ni s = n_of_int (int_of_string s) in
  (try while true do
    let line = input_line stdin in
    match split_ws line with
    | [] -> ()
    | "case" :: id :: _ -> out ("case " ^ id)
    | "start" :: _ -> st := (flow_init, n_of_int 1000000); rs := rx_init; out "start 0"
    | "cap" :: v :: _ -> step (FCap (ni v))
    | "flush" :: _ -> step FFlush
    | "time" :: v :: _ -> step (FTime (ni v))
    | "seqon" :: v :: _ -> step (FSeqOn (v <> "0"))
    | "reset_nodes" :: _ -> step FReset
    | "send" :: t :: s :: ss :: ty :: d :: _ -> step (FSend (((ni t, ni s), ni ss), ni ty, unhex d))
    | "rx" :: h :: _ ->
        let (((w1, r1), ps), items) = link_rx !st !rs (unhex h) in
        st := w1; rs := r1; emit ps
    | "discard" :: _ -> ()
    | "mark" :: r -> out ("mark " ^ String.concat " " r)
    | c :: _ when String.length c > 0 && c.[0] = '#' -> ()
    | c :: _ -> out ("unknown-command " ^ c)
  done with End_of_file -> ());
  flush_out ()

(* ---------------------------------------------------------------- mode rx : receive path, debug-mode queue *)
let mode_rx () =
  let rs = ref rx_init and q = ref [] and faulted = ref false in
  (try while true do
    let line = input_line stdin in
    match split_ws line with
    | [] -> ()
    | "case" :: id :: _ -> out ("case " ^ id); faulted := false
    | "start" :: _ -> rs := rx_init; q := []; out "start 0"
    | ("rx" | "rxnowait") :: h :: _ ->
        let (r1, items) = rx_run !rs (unhex h) in
        rs := r1;
        List.iter (fun it -> match it with
          | Delivered m -> if int_of_n m.m_type <> 0x8e then q := m.m_raw :: !q
          | Dropped -> ()
          | Malformed -> ()
          | Faulted _ -> if not !faulted then (faulted := true; out "model-fault")) items
    | "quiesce" :: _ -> ()
    | "drain" :: _ -> List.iter (fun m -> out ("q " ^ hex m)) (List.rev !q); q := []; out "q none"
    | "discard" :: _ -> q := []
    | "mark" :: r -> out ("mark " ^ String.concat " " r)
    | c :: _ when String.length c > 0 && c.[0] = '#' -> ()
    | c :: _ -> out ("unknown-command " ^ c)
  done with End_of_file -> ());
  flush_out ()

let () =
  match Array.to_list Sys.argv with
  | _ :: "rx" :: _ -> mode_rx ()
  | _ :: "flow" :: _ -> mode_flow ()
  | _ :: "tx" :: _ -> mode_tx ()
  | _ :: "tx-oracle" :: _ -> mode_tx_oracle ()
  | _ -> prerr_endline "usage: model_driver <mode>"; exit 2
