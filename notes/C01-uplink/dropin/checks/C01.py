"""C01 — downlink bytes are well-formed packets carrying each sent message exactly once."""
import os, json, subprocess
import vlib
from vlib import Rng, hexs, unhex

def crc8(bs):
    c = 0
    for b in bs:
        x = b ^ c
        for _ in range(8):
            x = (x >> 1) ^ 0x8C if x & 1 else x >> 1
        c = x
    return c

SPECIAL = [0xFD, 0xFE, 0xDD, 0xDE]

def gen_msg(r, maxlen=40, steer_crc=False, prefix=()):
    depth = r.below(4)
    addr = [r.range(1, 255) for _ in range(depth)] + [0]
    body_len = r.range(0, max(0, maxlen - len(addr) - 3))
    data = [r.choice(SPECIAL) if r.chance(1, 4) else r.below(256) for _ in range(body_len)]
    m = addr + [r.below(256), r.below(256)] + data
    m = [len(m)] + m
    if steer_crc and data:
        want = r.choice([0xFE, 0xFD])
        for v in range(256):
            m[-1] = v
            if crc8(list(prefix) + m) == want:
                break
    return m

def gen_case(r, kind):
    ops = []
    if kind == "basic":
        for _ in range(r.range(1, 10)):
            k = r.below(10)
            if k < 7: ops.append(("add", gen_msg(r, r.choice([8, 20, 40, 64]))))
            elif k < 9: ops.append(("flush",) if r.chance(2, 3) else gen_ann(r))
            else: ops.append(("cap", r.choice([0, 1, 63, 64, 65, 66, 100, 128, 200, 254, 255, r.below(256)])))
    elif kind == "crc":
        ops.append(("add", gen_msg(r, 30, steer_crc=True)))
        ops.append(("flush",))
        ops.append(("add", gen_msg(r, 12)))
    elif kind == "capedge":
        cap = r.choice([0, 64, 65, 70, 100, 128, 255, r.range(60, 255)])
        ops.append(("cap", cap))
        eff = max(64, cap)
        tot = 0
        for _ in range(r.range(2, 8)):
            tgt = r.choice([eff - 5, eff - 4, eff - 3, eff, eff + 1, eff - 1]) - tot
            ln = tgt if (4 <= tgt <= 200 and r.chance(1, 2)) else r.range(4, 40)
            m = gen_msg(r, ln)
            while len(m) < ln:
                m.append(r.below(256)); m[0] = len(m) - 1
            ops.append(("add", m))
            tot += len(m)
            if tot > eff - 4: tot = 0
            if r.chance(1, 8): ops.append(("cap", r.choice([0, 64, 80, 255, r.below(256)])))
    elif kind == "announce":
        ops = gen_announce_case(r)
    elif kind == "staging":
        ops.append(("cap", 255))
        n = r.range(2, 5)
        for _ in range(n):
            ln = r.range(40, 120)
            m = [ln - 1, 0, r.below(256), r.below(256)] + [r.choice([0xFE, 0xFD]) if r.chance(3, 4) else r.below(256) for _ in range(ln - 4)]
            ops.append(("add", m))
    elif kind == "big":
        ops.append(("cap", r.choice([0, 255])))
        ln = r.choice([250, 251, 252, 255, 256, r.range(128, 256)])
        m = [ln - 1, 0, 1, 2] + [r.below(256) for _ in range(ln - 4)]
        ops.append(("add", gen_msg(r, 10)))
        ops.append(("add", m))
        ops.append(("add", gen_msg(r, 10)))
    return ops

ANN_VALUES = [0, 1, 63, 64, 65, 66, 100, 128, 137, 138, 139, 200, 254, 255]

def gen_ann(r, debug=None, depth=None, value="rand"):
    """a MSG_PKT_CAPACITY arriving as an uplink message: ("ann", debug, sender address, seq, value|None)"""
    if debug is None: debug = 1 if r.chance(1, 3) else 0
    if depth is None: depth = r.choice([0, 0, 1, 1, 2, 3])
    addr = [r.choice([0xFE, 0xFD]) if r.chance(1, 8) else r.range(1, 252) for _ in range(depth)]
    if value == "rand":
        value = None if r.chance(1, 16) else (r.choice(ANN_VALUES) if r.chance(3, 4) else r.below(256))
    seq = r.choice([0, 0, r.range(65, 255), r.below(256)])
    return ("ann", debug, addr, seq, value)

def ann_msg(o):
    m = list(o[2]) + [0, o[3], 0x8A] + ([o[4]] if o[4] is not None else [])
    return [len(m)] + m

def sized_msg(r, ln):
    """a message of exactly ln >= 4 bytes"""
    depth = r.below(min(4, ln - 3))
    m = [ln - 1] + [r.range(1, 255) for _ in range(depth)] + [0, r.below(256), r.below(256)]
    m += [r.choice(SPECIAL) if r.chance(1, 6) else r.below(256) for _ in range(ln - len(m))]
    return m

def gen_fill(r, ops, bound):
    """several small messages without a flush in between, their total passing `bound` (or landing exactly on
    bound / bound+1): the packet boundaries on the wire then show which capacity the buffer was filled under"""
    tot = 0
    if r.chance(1, 3):
        tgt = bound + r.choice([0, 0, 1])
        while tot < tgt - 16:
            m = sized_msg(r, r.choice([4, 5, 6, 8])); ops.append(("add", m)); tot += len(m)
        rest = tgt - tot
        if rest >= 8:
            a = r.range(4, rest - 4); ops.append(("add", sized_msg(r, a))); tot += a
        if tgt - tot >= 4: ops.append(("add", sized_msg(r, tgt - tot)))
        ops.append(("add", sized_msg(r, r.choice([4, 5, 9]))))
        return
    lim = min(300, bound + r.range(6, 30))
    while tot < lim:
        m = gen_msg(r, r.choice([5, 6, 8, 12]))
        ops.append(("add", m)); tot += len(m)

def gen_announce_case(r, first=None):
    ops = []
    if r.chance(1, 4): ops.append(("cap", r.choice([0, 64, 100, 200, 255])))
    if r.chance(1, 4): ops.append(("add", gen_msg(r, 12)))
    for i in range(r.range(1, 3)):
        a = first if (i == 0 and first is not None) else gen_ann(r)
        ops.append(a)
        if r.chance(1, 5): ops.append(gen_ann(r))
        v = a[4] if a[4] is not None else 64
        bound = r.choice([64, 64, max(64, v), 138, max(64, a[3]), 255])
        gen_fill(r, ops, bound)
        if r.chance(1, 3): ops.append(("flush",))
    return ops

def escaped_len(bs):
    return sum(2 if b in (0xFE, 0xFD) else 1 for b in bs)

def gen_auxedge(r, T, last, crcw, variant):
    """capacity 255; one packet whose escaped form has reached staging index T right before its last
    payload byte; last byte / CRC plain, 0xFD or 0xFE (CRC steered by one plain data byte)"""
    want = {"plain": None, "fd": 0xFD, "fe": 0xFE}
    for attempt in range(200):
        n = 256 if (variant == "single" and r.chance(1, 10)) else r.range(170, 255)
        if variant == "single":
            lens = [n]
        else:
            k = r.range(2, 4); lens = []; left = n
            for j in range(k - 1):
                x = r.range(4, max(4, min(120, left - 4 * (k - 1 - j) - 4)))
                lens.append(x); left -= x
            lens.append(left)
            if left < 4 or sum(lens[:-1]) > 251 or n > 255: continue
        buf = []; fixed = set()
        for ln in lens:
            fixed.add(len(buf)); buf += [ln - 1] + [None] * (ln - 1)
        free = [i for i in range(n - 1) if i not in fixed]
        steer = r.choice(free); free.remove(steer)
        e = T - n - sum(1 for i in fixed if buf[i] in (0xFE, 0xFD))
        if e < 0 or e > len(free): continue
        # Fisher-Yates prefix: e positions get a special byte
        for j in range(e):
            q = j + r.below(len(free) - j); free[j], free[q] = free[q], free[j]
        sp = set(free[:e])
        for i in range(n - 1):
            if buf[i] is None: buf[i] = r.choice([0xFE, 0xFD]) if i in sp else r.below(0xFD)
        buf[n - 1] = want[last] if want[last] is not None else r.below(0xFD)
        ok = False
        for v0 in range(0xFD):
            v = (v0 + r.below(0xFD)) % 0xFD
            buf[steer] = v
            c = crc8(buf)
            if (want[crcw] is None and c not in (0xFE, 0xFD)) or c == want[crcw]: ok = True; break
        if not ok: continue
        assert 1 + escaped_len(buf[:n - 1]) == T
        ops = [("ann", 0, [], r.below(256), 255)] if variant == "announced" else [("cap", 255)]
        i = 0
        for ln in lens:
            ops.append(("add", buf[i:i + ln])); i += ln
        return ops
    raise RuntimeError("gen_auxedge: no packet found for T=%d %s %s %s" % (T, last, crcw, variant))

def ops_json(ops):
    out = []
    for o in ops:
        if o[0] == "add": out.append(["add", hexs(o[1])])
        elif o[0] == "ann": out.append(["ann", {"debug_mode": o[1], "sender": list(o[2]), "seq": o[3], "capacity": o[4], "message": hexs(ann_msg(o))}])
        else: out.append(list(o))
    return out

def script_of(cid, ops):
    import flowgen
    L = ["case %s" % cid, "debugmode 1", "cap 0", "flush"]; mode = 1
    for i, o in enumerate(ops):
        if o[0] == "add": L.append("add " + hexs(o[1]))
        elif o[0] == "flush": L.append("flush")
        elif o[0] == "ann":
            if o[1] != mode: L.append("debugmode %d" % o[1]); mode = o[1]
            L.append("rx " + hexs(flowgen.frame(ann_msg(o))))
        else: L.append("cap %d" % o[1])
        L.append("mark %d" % i)
    L += ["flush", "debugmode 1", "discard q"]
    return L

def caps_at_adds(ops, rule="spec"):
    """capacity in force at every add, from the property text: 64 unless the interface announced more
    (outside low-level debug mode, where nothing but stall notices is processed); the direct call of the
    library's own setter counts. Other rules only serve to name what a too long packet was filled under."""
    capv = 64; caps = []
    for o in ops:
        if o[0] == "cap": capv = max(64, o[1])
        elif o[0] == "ann" and o[4] is not None:
            ok = {"spec": o[1] == 0 and not o[2], "any-sender": o[1] == 0, "all": True}[rule]
            if ok: capv = max(64, o[4])
        elif o[0] == "add": caps.append(capv)
    return caps

def cap_violation(ops, il):
    """the capacity rule of the property text on one implementation run: (messages, bytes, capacity in force) of the
    first packet that carries more than one message and exceeds the capacity in force when its last message was added"""
    import flowgen
    pk = flowgen.decode_wire([unhex(l[2:]) for l in il if l.startswith("w ")])
    caps = caps_at_adds(ops); k = 0
    for p in (pk or []):
        k += len(p)
        size = sum(len(m) for m in p)
        if len(p) >= 2 and k <= len(caps) and size > caps[k - 1]: return (len(p), size, caps[k - 1])
    return None

def capacity_key(exe, ops):
    """names the input class of a capacity violation by re-running the history on the implementation without the
    announcements that must have no effect: if the violation stays it has nothing to do with them"""
    no_dbg = [o for o in ops if not (o[0] == "ann" and o[1])]
    no_sub = [o for o in ops if not (o[0] == "ann" and not o[1] and o[2])]
    neither = [o for o in no_dbg if not (o[0] == "ann" and o[2])]
    if len(neither) == len(ops): return "capacity-exceeded"
    L = ["start 1 - 0"]
    for n_, v in (("a", no_dbg), ("b", no_sub), ("c", neither)): L += script_of(n_, v)
    rc, out, err = vlib.run_driver(exe, "\n".join(L) + "\n", timeout=120)
    got = vlib.split_cases(out)
    if rc != 0 or any(x not in got for x in "abc"): return "capacity-exceeded"
    va, vb, vc = (cap_violation(v, got[n_]) for n_, v in (("a", no_dbg), ("b", no_sub), ("c", neither)))
    if vc: return "capacity-exceeded"
    if not va and vb: return "capacity.announced-in-debug-mode"
    if not vb and va: return "capacity.announced-by-subnode"
    return "capacity.announced-without-effect-expected"

def classify(ops, lines):
    tags = set()
    ws = [l for l in lines if l.startswith("w ")]
    for o in ops:
        if o[0] == "add" and any(b in (0xFE, 0xFD) for b in o[1]): tags.add("escape")
        if o[0] == "ann":
            if o[4] is None: tags.add("announce-without-data")
            elif o[1]: tags.add("announce-in-debug-mode")
            elif o[2]: tags.add("announce-by-subnode-depth%d" % len(o[2]))
            else: tags.add("announce-by-interface")
    capsq = caps_at_adds(ops)
    if capsq and max(capsq) > 64 and any(o[0] == "ann" for o in ops): tags.add("capacity-raised")
    for w in ws:
        b = unhex(w[2:])
        if len(b) >= 3 and b[-1] == 0xFE and b[-3] == 0xFD: tags.add("escaped-crc")
        if b and (b[0] != 0xFE or b[-1] != 0xFE): tags.add("staging-split")
        if len(b) >= 309: tags.add("staging-chunk>=309")
    # a flush caused by an add: wire output between the previous mark and the mark of an add operation
    pending = 0
    for l in lines:
        if l.startswith("w "): pending += 1
        elif l.startswith("mark "):
            try: i = int(l[5:])
            except ValueError: i = -1
            if pending and 0 <= i < len(ops) and ops[i][0] == "add": tags.add("flush-on-add")
            pending = 0
    if len(ws) >= 2: tags.add("multi-packet")
    return tags

def two_sender_probe(ck, rr, prop):
    """two senders under forced lock-granularity schedules on the real code (used by C01 and C10)"""
    import flowgen
    # two senders under forced lock-granularity schedules: sender A (long message, deep address) is parked before its k-th
    # mutex acquisition inside the submission while sender B (short message, other node) submits; the wire must carry exactly
    # the two messages, each intact (address, type, data) and once
    exe2 = vlib.build_harness(wrap=("pthread_mutex_lock",))
    L2 = ["start 1 - 0"]; sp = []
    for k in range(1, 9):
        da = [rr.range(1, 250) for _ in range(rr.range(12, 30))]; db = [rr.range(1, 250) for _ in range(rr.range(1, 3))]
        ja = (1, 2, 3, 0x17, da); jb = (rr.choice([4, 5]), 0, 0, 0x17, db)
        if k % 2 == 0: ja, jb = jb, ja
        sp.append((k, ja, jb))
        L2 += ["case t%d" % k, "reset_nodes", "cap 0", "flush", "sched2 %d %d %d %d %d %s %d %d %d %d %s" % ((k,) + ja[:4] + (hexs(ja[4]),) + jb[:4] + (hexs(jb[4]),)), "flush"]
    rc2, out2, err2 = vlib.run_driver(exe2, "\n".join(L2) + "\n", timeout=300)
    pc2 = vlib.split_cases(out2); tbad = 0
    for k, ja, jb in sp:
        ls = pc2.get("t%d" % k)
        chunks = [unhex(l[2:]) for l in (ls or []) if l.startswith("w ")]
        pk = flowgen.decode_wire(chunks) if ls is not None else None
        got = sorted((tuple(a), ty, tuple(d)) for p in (pk or []) for a, sq, ty, d in [flowgen.msg_fields(m) for m in p])
        want = sorted((tuple(x for x in j[:3] if x), j[3], tuple(j[4])) for j in (ja, jb))
        if pk is None or got != want:
            tbad += 1
            if tbad <= 2:
                ck.violation("concurrent-submit", {"property": prop, "scenario": "sender A parked before its %d-th mutex acquisition inside the submission while sender B submits; then A continues" % k,
                             "schedule": ["sched2 %d %d %d %d %d %s %d %d %d %d %s" % ((k,) + ja[:4] + (hexs(ja[4]),) + jb[:4] + (hexs(jb[4]),))],
                             "A": [list(ja[:3]), ja[3], hexs(ja[4])], "B": [list(jb[:3]), jb[3], hexs(jb[4])], "wire_chunks": [hexs(c) for c in chunks], "decoded": [list(map(str, g)) for g in got],
                             "driver_rc": rc2, "reason": "the wire does not carry exactly the two submitted messages, each intact and once"})
    ck.oblige("concurrency probe: two senders under forced lock-granularity schedules, messages intact and once (%d schedules)" % len(sp), tbad == 0, "%d bad" % tbad)
    return tbad

def run(ck):
    quick = ck.tier == "quick"
    cdir, proofs_ok = vlib.proof_phase(ck, "Properties_C01.v", translators=("tables", "lockcfg"))
    # lock facts C01 relies on: buffer, staging buffer, index, capacity and the write callback are only
    # touched under bidib_send_buffer_mutex (generated lock programs, verified checker)
    okl, logl = vlib.coq_make(cdir, ["LockProofs.vo"])
    diag, side = vlib.lock_diagnosis(cdir, kinds=("guard", "balance"), threadsafe_only=True)
    rel = [d for d in diag if any(g in d["what"] for g in ("buffer", "pkt_max_cap", "write_bytes"))]
    ck.oblige("lock fact: packet buffer / staging buffer / write callback only used under bidib_send_buffer_mutex", okl and not rel, "; ".join(d["what"] for d in rel[:3]))
    if not okl or rel:
        ck.broken.append({"kind": "lock-fact", "name": "guarded_by send_buffer", "detail": rel[:5] or logl[-800:]})
    exe = vlib.build_harness()
    # concurrency probe on the real code: a second thread buffers and flushes while the first is inside a
    # slow write callback; both messages must appear exactly once in decodable packets
    rr = Rng(ck.seed).fork("C01race")
    probe = ["start 1 - 0"]
    pm = []
    for i in range(4 if quick else 40):
        a = gen_msg(rr, 20); b = gen_msg(rr, 20); pm.append((a, b))
        probe += ["case r%d" % i, "cap 0", "flush", "race_flush %s %s" % (hexs(a), hexs(b)), "flush"]
    rc, out, err = vlib.run_driver(exe, "\n".join(probe) + "\n", timeout=120)
    pc = vlib.split_cases(out)
    import flowgen
    race_bad = 0
    for i, (a, b) in enumerate(pm):
        chunks = [unhex(l[2:]) for l in pc.get("r%d" % i, []) if l.startswith("w ")]
        pk = flowgen.decode_wire(chunks)
        got = sorted(hexs(m) for p in (pk or []) for m in p)
        if pk is None or got != sorted([hexs(a), hexs(b)]):
            race_bad += 1
            ck.violation("concurrent-flush", {"property": "C01", "scenario": "thread 1: add A, flush (slow write callback); thread 2 meanwhile: add B, flush",
                         "A": hexs(a), "B": hexs(b), "wire_chunks": [hexs(c) for c in chunks], "reason": "wire is not a sequence of valid packets carrying A and B exactly once"})
    ck.oblige("concurrency probe: flush racing a slow write callback (%d runs)" % len(pm), race_bad == 0, "%d bad" % race_bad)
    two_sender_probe(ck, rr, "C01")
    # the submission path itself (bidib_buffer_message_with(out)_data) for every address depth and payload sizes around the default
    # packet capacity and up to the largest legal message (length byte 127): each submitted message is on the wire once, intact
    L3 = ["start 1 - 0"]; sw = []
    for d, a3 in enumerate([(0, 0, 0), (1, 0, 0), (1, 2, 0), (1, 2, 3)]):
        top = 124 - d
        for n in sorted(set([0, 1, 2, 54, 55, 56, 57, 58, 59, 60, 61, 62, 100, top - 3, top - 2, top - 1, top])):
            data = [rr.range(1, 250) for _ in range(n)]
            sw.append((a3, n, data))
            L3 += ["case w%d" % (len(sw) - 1), "reset_nodes", "cap 0", "flush", "send %d %d %d %d %s" % (a3 + (0x23, hexs(data) if data else "-")), "flush"]
    rc3, out3, err3 = vlib.run_driver(exe, "\n".join(L3) + "\n", timeout=300)
    pc3 = vlib.split_cases(out3); wbad = 0
    for i, (a3, n, data) in enumerate(sw):
        ls = pc3.get("w%d" % i)
        chunks = [unhex(l[2:]) for l in (ls or []) if l.startswith("w ")]
        pk = flowgen.decode_wire(chunks) if ls is not None else None
        got = [(tuple(a), ty, tuple(dd)) for p in (pk or []) for a, sq, ty, dd in [flowgen.msg_fields(m) for m in p]]
        if pk is None or got != [(tuple(x for x in a3 if x), 0x23, tuple(data))]:
            wbad += 1
            if wbad <= 2:
                ck.violation("submit-dropped-or-altered", {"property": "C01", "script": ["reset_nodes", "cap 0", "flush", "send %d %d %d %d %s" % (a3 + (0x23, hexs(data) if data else "-")), "flush"],
                             "address": list(a3), "data_bytes": n, "wire_chunks": [hexs(c) for c in chunks], "driver_rc": rc3,
                             "reason": "a message of legal size submitted through bidib_buffer_message_with(out)_data is not on the wire exactly once and intact"})
    ck.oblige("submission path: every address depth x payload sizes up to the largest legal message, on the wire once and intact (%d messages)" % len(sw), wbad == 0, "%d bad" % wbad)
    md = vlib.build_model_driver(cdir)
    import flowgen, re
    # PACKET_BUFFER_AUX_SIZE as regenerated from the source in use
    mt = re.search(r'Definition tx_aux_size : N := (\d+)\.', open(os.path.join(cdir, "Tables.v")).read())
    AUX = int(mt.group(1)) if mt else 312
    r = Rng(ck.seed).fork("C01")
    n = 4000 if quick else 150000
    kinds = ["basic"] * 5 + ["crc"] * 2 + ["capedge"] * 4 + ["staging"] * 1 + ["big"] * 1 + ["announce"] * 4
    # corpus first
    cases = []
    cp = os.path.join(vlib.VERIF, "corpus", "C01.json")
    if os.path.exists(cp):
        for c in json.load(open(cp)):
            cases.append([tuple(o) for o in c])
    # directed: the staging buffer around its end. Capacity 255, staging index before the last payload byte
    # 300..311 x last byte plain/FD/FE x CRC plain/FD/FE; one message, several messages, capacity announced
    rd_ = r.fork("auxedge"); ndirected = 0
    for rep in range(1 if quick else 12):
        for variant in ("single", "multi", "announced"):
            for T in range(AUX - 12, AUX):
                for last in ("plain", "fd", "fe"):
                    for crcw in ("plain", "fd", "fe"):
                        cases.append(gen_auxedge(rd_, T, last, crcw, variant))
                        ndirected += 1
    # directed: every sender depth x debug mode x announced values around the bounds, each followed by a
    # multi-message fill that passes 64 bytes / the announced value
    ra_ = r.fork("announce")
    for depth in range(4):
        for dbg in (0, 1):
            # smallest history of its kind: one announcement of 200, then fourteen 5-byte messages (70 bytes) without a flush
            cases.append([gen_ann(ra_, debug=dbg, depth=depth, value=200)] + [("add", [4, 0, ra_.below(256), ra_.below(253), ra_.below(253)]) for _ in range(14)])
            for v in ([65, 100, 138, 200, 255] if quick else list(range(256))):
                a = gen_ann(ra_, debug=dbg, depth=depth, value=v)
                cases.append(gen_announce_case(ra_, first=a))
    if not quick:
        for cap in range(256):   # every announced capacity, through the direct call
            rr = r.fork("cap%d" % cap)
            ops = [("cap", cap)] + [("add", gen_msg(rr, rr.choice([8, 20, 40, 64]))) for _ in range(12)]
            cases.append(ops)
    while len(cases) < n:
        cases.append(gen_case(r, r.choice(kinds)))
    shard = 2000
    total_dis = 0; nontrivial = 0; dist = {}; oracle_fail = 0; evals = 0; crashes = 0; chunk_bad = 0
    samples = []
    cap_viol = []
    found = {}          # key -> (number of ops, replay content): the smallest failing history per input class is reported
    def report(key, ops, content):
        if key not in found or len(ops) < found[key][0]: found[key] = (len(ops), content)

    def run_part(idx):
        lines = ["start 1 - 0"]
        for i in idx:
            lines += script_of(str(i), cases[i])
        script = "\n".join(lines) + "\n"
        rc, out, err = vlib.run_driver(exe, script, timeout=600)
        return script, rc, vlib.split_cases(out), err

    for s0 in range(0, len(cases), shard):
        todo = list(range(s0, min(s0 + shard, len(cases))))
        impl = {}; crashed = {}
        # the driver prints a case when the next one starts: after a crash the first case without output is the
        # one that died. It is re-run alone (concrete replay), the rest of the shard continues in a new process.
        while todo:
            script, rc, got, err = run_part(todo)
            if rc == 0:
                impl.update(got); break
            done = [i for i in todo if str(i) in got]
            k = todo[len(done)] if len(done) < len(todo) else todo[-1]
            for i in done: impl[str(i)] = got[str(i)]
            _, rc1, got1, err1 = run_part([k])
            crashed[k] = (rc1 if rc1 != 0 else rc, (err1 if rc1 != 0 else err)[-2500:], rc1 != 0)
            crashes += 1
            todo = todo[len(done) + 1:]
            if crashes > 6: break
        part = list(range(s0, min(s0 + shard, len(cases))))
        script = "\n".join(["start 1 - 0"] + [l for i in part for l in script_of(str(i), cases[i])]) + "\n"
        mo = subprocess.run([md, "tx"], input=script, capture_output=True, text=True, timeout=600)
        model = vlib.split_cases(mo.stdout)
        # oracle on the implementation's output
        olines = []
        for i in part:
            cid = str(i)
            olines.append("case " + cid)
            for o in cases[i]:
                if o[0] == "add": olines.append("add " + hexs(o[1]))
            olines += [l for l in impl.get(cid, []) if l.startswith("w ")]
        orc = subprocess.run([md, "tx-oracle"], input="\n".join(olines) + "\n", capture_output=True, text=True, timeout=600)
        overd = vlib.split_cases(orc.stdout)
        for i in part:
            ops = cases[i]
            cid = str(i); evals += 1
            il = impl.get(cid); ml = model.get(cid)
            if i in crashed:
                rcx, errx, alone = crashed[i]
                oracle_fail += 1
                overflow = "'buffer_aux'" in errx or re.search(r"runtime error: index \d+ out of bounds for type 'volatile uint8_t\[%d\]'" % AUX, errx) is not None
                report("staging-buffer-overflow" if overflow else "driver-crash", ops,
                             {"property": "C01", "ops": ops_json(ops), "script": script_of("replay", ops), "model": ml, "driver_rc": rcx, "reproduced_alone": alone, "stderr": errx,
                              "reason": ("a store behind the staging buffer buffer_aux (PACKET_BUFFER_AUX_SIZE = %d) while the packet was serialised" % AUX) if overflow
                                        else "the driver died (sanitizer report or signal) while running this history"})
                continue
            if il is None:
                continue            # not run: the shard was given up after repeated crashes (reported above)
            tags = classify(ops, il)
            for t in tags: dist[t] = dist.get(t, 0) + 1
            if tags: nontrivial += 1
            if len(samples) < 4 and tags and (len(samples) < 2 or "capacity-raised" in tags): samples.append({"ops": ops_json(ops), "impl": il})
            ofail = overd.get(cid) != ["oracle ok"]
            chunks = [unhex(l[2:]) for l in il if l.startswith("w ")]
            # every chunk handed to the write callback fits the staging buffer
            big = [len(c) for c in chunks if len(c) > AUX]
            if big:
                chunk_bad += 1
                report("chunk-exceeds-staging-buffer", ops, {"property": "C01", "ops": ops_json(ops), "script": script_of("replay", ops), "impl": il, "model": ml,
                             "reason": "the write callback was handed %d bytes, the staging buffer has PACKET_BUFFER_AUX_SIZE = %d" % (big[0], AUX)})
            # capacity rule of the property text: a packet carrying more than one message never exceeds
            # the capacity in force when it was filled (= when its last message was added)
            if not ofail:
                cv = cap_violation(ops, il)
                if cv:
                    oracle_fail += 1
                    cap_viol.append((len(ops), i, {"property": "C01", "ops": ops_json(ops), "script": script_of("replay", ops), "impl": il, "model": ml,
                                     "reason": "a packet with %d messages carries %d payload bytes, capacity in force when it was filled is %d (64 unless the interface announced more outside debug mode)" % cv}))
            if ofail:
                oracle_fail += 1
                report("wire-not-decodable", ops, {"property": "C01", "ops": ops_json(ops), "script": script_of("replay", ops),
                             "impl": il, "model": ml, "reason": "reference decoder does not recover the added messages from the implementation's wire"})
            elif il != ml:
                total_dis += 1
                if total_dis <= 3:
                    ck.broken.append({"kind": "correspondence", "name": "corr_framing", "case": ops_json(ops), "script": script_of("replay", ops), "impl": il, "model": ml})
        if crashes > 6: break
    # name the input class of the (smallest) capacity violations by differential re-runs
    for nops, i, content in sorted(cap_viol, key=lambda t: (t[0], t[1]))[:16]:
        report(capacity_key(exe, cases[i]), cases[i], content)
    for key in sorted(found):
        ck.violation(key, found[key][1])
    ck.oblige("correspondence corr_framing (impl == model on %d histories: wire bytes and write-callback chunk boundaries)" % evals, total_dis == 0, "%d disagreements" % total_dis)
    ck.oblige("oracle ref_decode accepts implementation wire; multi-message packets within the capacity in force", oracle_fail == 0, "%d rejected" % oracle_fail)
    ck.oblige("oracle: every chunk handed to the write callback has at most PACKET_BUFFER_AUX_SIZE = %d bytes; no sanitizer report (%d directed staging cases)" % (AUX, ndirected), chunk_bad == 0 and crashes == 0, "%d too long, %d crashes" % (chunk_bad, crashes))
    ck.coverage.update({"evaluations": evals, "distinct_nontrivial": nontrivial,
                        "rule": "seeded histories (add/flush/setcap + MSG_PKT_CAPACITY arriving through the receiver thread from depth 0..3, in and outside debug mode) over generated messages; non-trivial = hits an escape, an escaped CRC, a flush caused by add, several packets, a staging split or an announcement",
                        "distribution": dist, "samples": samples, "disagreements_checked": total_dis, "directed_staging_cases": ndirected})
    ck.assumptions += ["write callback delivery to a serial port is outside the model",
                       "atomicity of add/flush/setcap/announcement handling under concurrent callers is the lock fact of C10/C11"]
    return vlib.finish_with_broken(ck, trusted=vlib.TRUSTED_COMMON)

def replay(ck, path):
    return vlib.replay_generic(ck, path)
