(* FramingProofs.v — lemmas about Framing.v (C01, reused by C02). *)
From Coq Require Import List NArith Bool Arith Lia.
From LB Require Import Tables Framing.
Import ListNotations.
Local Open Scope N_scope.

(* ------------------------------------------------------------------ *)
(* Facts about the generated table, by complete enumeration           *)
(* ------------------------------------------------------------------ *)
Definition bytes256 : list N := map N.of_nat (seq 0 256).

Lemma bytes256_complete b : b < 256 -> In b bytes256.
Proof.
  intros H. unfold bytes256. apply in_map_iff. exists (N.to_nat b). split; [lia|].
  apply in_seq. lia.
Qed.

Lemma crc_table_length : length crc_table = 256%nat.
Proof. reflexivity. Qed.

Lemma crc_table_poly_b :
  forallb (fun x => nth (N.to_nat x) crc_table 0 =? crc_ref_byte x) bytes256 = true.
Proof. vm_compute. reflexivity. Qed.

Lemma crc_table_is_poly x : x < 256 -> nth (N.to_nat x) crc_table 0 = crc_ref_byte x.
Proof.
  intros H. pose proof crc_table_poly_b as Hb. rewrite forallb_forall in Hb.
  apply N.eqb_eq. apply Hb. apply bytes256_complete. exact H.
Qed.

Lemma crc_table_0 : nth 0 crc_table 0 = 0.
Proof. reflexivity. Qed.

Lemma crc_table_range_b : forallb (fun v => v <? 256) crc_table = true.
Proof. vm_compute. reflexivity. Qed.

Lemma crc_step_lt c b : crc_step c b < 256.
Proof.
  unfold crc_step. pose proof crc_table_range_b as Hb. rewrite forallb_forall in Hb.
  destruct (Nat.lt_ge_cases (N.to_nat (N.lxor b c)) (length crc_table)) as [Hlt|Hge].
  - apply N.ltb_lt. apply Hb. apply nth_In. exact Hlt.
  - rewrite nth_overflow by exact Hge. lia.
Qed.

Lemma magic_val : pkt_magic = 254. Proof. reflexivity. Qed.
Lemma escape_val : pkt_escape = 253. Proof. reflexivity. Qed.

(* ------------------------------------------------------------------ *)
(* CRC                                                                *)
(* ------------------------------------------------------------------ *)
Lemma crc8_app l1 l2 : crc8 (l1 ++ l2) = fold_left crc_step l2 (crc8 l1).
Proof. unfold crc8. apply fold_left_app. Qed.

Lemma crc_step_self c : crc_step c c = 0.
Proof. unfold crc_step. rewrite N.lxor_nilpotent. reflexivity. Qed.

Lemma crc8_self p : crc8 (p ++ [crc8 p]) = 0.
Proof. rewrite crc8_app. cbn [fold_left]. apply crc_step_self. Qed.

(* ------------------------------------------------------------------ *)
(* escape / unescape                                                  *)
(* ------------------------------------------------------------------ *)
Lemma is_special_cases b : is_special b = true -> b = 254 \/ b = 253.
Proof.
  unfold is_special. rewrite magic_val, escape_val. intros H.
  apply orb_true_iff in H as [H|H]; apply N.eqb_eq in H; auto.
Qed.

Lemma esc_byte_no_magic b : ~ In pkt_magic (esc_byte b).
Proof.
  unfold esc_byte. destruct (is_special b) eqn:E.
  - apply is_special_cases in E as [-> | ->]; rewrite magic_val, escape_val; cbn; intros [H|[H|[]]]; discriminate.
  - unfold is_special in E. apply orb_false_iff in E as [E _]. apply N.eqb_neq in E.
    cbn. intros [H|[]]. congruence.
Qed.

Lemma escape_no_magic l : ~ In pkt_magic (escape l).
Proof.
  unfold escape. intros H. apply in_flat_map in H as (b & _ & Hb).
  exact (esc_byte_no_magic b Hb).
Qed.

Lemma escape_app a b : escape (a ++ b) = escape a ++ escape b.
Proof. unfold escape. apply flat_map_app. Qed.

Lemma escape_single b : escape [b] = esc_byte b.
Proof. unfold escape. cbn. apply app_nil_r. Qed.

Lemma unescape_esc_byte b r :
  unescape (esc_byte b ++ r) = option_map (cons b) (unescape r).
Proof.
  unfold esc_byte. destruct (is_special b) eqn:E.
  - cbn [app unescape]. rewrite N.eqb_refl.
    rewrite N.lxor_assoc, N.lxor_nilpotent, N.lxor_0_r. reflexivity.
  - cbn [app unescape]. unfold is_special in E. apply orb_false_iff in E as [_ E]. rewrite E. reflexivity.
Qed.

Lemma unescape_escape l : unescape (escape l) = Some l.
Proof.
  induction l as [|b l IH]; [reflexivity|].
  unfold escape in *. cbn [flat_map]. rewrite unescape_esc_byte, IH. reflexivity.
Qed.

(* every special byte is emitted as escape, b xor 0x20 (statement of C01_escape_clean) *)
Lemma escape_spec l :
  escape l = flat_map (fun b => if (b =? 254) || (b =? 253) then [253; N.lxor b 32] else [b]) l.
Proof. reflexivity. Qed.

(* ------------------------------------------------------------------ *)
(* the staged writer emits exactly the frame, in bounded chunks        *)
(* ------------------------------------------------------------------ *)
Lemma flush_loop_concat A buf : forall crc aux out,
  let '(crc', aux', out') := flush_loop A buf crc aux out in
  crc' = fold_left crc_step buf crc /\
  concat out' ++ aux' = concat out ++ aux ++ escape buf.
Proof.
  induction buf as [|b r IH]; intros crc aux out.
  - cbn. rewrite app_nil_r. auto.
  - cbn [flush_loop].
    specialize (IH (crc_step crc b)
                   (fst (if A <=? nlen aux + 3 then ([], out ++ [aux]) else (aux, out)) ++ esc_byte b)
                   (snd (if A <=? nlen aux + 3 then ([], out ++ [aux]) else (aux, out)))).
    destruct (flush_loop A r _ _ _) as [[crc' aux'] out'].
    destruct IH as [Hc Hw]. split; [exact Hc|].
    rewrite Hw. unfold escape. cbn [flat_map fold_left].
    destruct (A <=? nlen aux + 3); cbn [fst snd].
    + rewrite concat_app. cbn [concat]. rewrite app_nil_r, app_nil_l, <- !app_assoc. reflexivity.
    + rewrite <- !app_assoc. reflexivity.
Qed.

Lemma flush_chunks_concat A buf : buf <> [] -> concat (flush_chunks A buf) = frame buf.
Proof.
  intros Hne. unfold flush_chunks. destruct buf as [|b0 r0]; [congruence|].
  pose proof (flush_loop_concat A (b0 :: r0) 0 [pkt_magic] []) as H.
  destruct (flush_loop A (b0 :: r0) 0 [pkt_magic] []) as [[crc aux] out].
  destruct H as [Hc Hw]. cbn [concat app] in Hw.
  unfold frame. fold (crc8 (b0 :: r0)) in Hc. rewrite <- Hc.
  destruct (A <=? nlen aux + 4); cbn [fst snd].
  - rewrite !concat_app. cbn [concat]. rewrite !app_nil_r, app_nil_l.
    rewrite app_assoc, Hw. cbn. rewrite <- app_assoc. reflexivity.
  - rewrite concat_app. cbn [concat]. rewrite app_nil_r.
    rewrite app_assoc, Hw. cbn. rewrite <- app_assoc. reflexivity.
Qed.

Lemma nlen_app {X} (a b : list X) : nlen (a ++ b) = nlen a + nlen b.
Proof. unfold nlen. rewrite app_length. lia. Qed.

Lemma nlen_esc_byte b : 1 <= nlen (esc_byte b) <= 2.
Proof. unfold esc_byte, nlen. destruct (is_special b); cbn; lia. Qed.

Lemma flush_loop_bound A buf : 8 <= A -> forall crc aux out,
  nlen aux + 2 <= A -> Forall (fun c => nlen c <= A) out ->
  let '(_, aux', out') := flush_loop A buf crc aux out in
  nlen aux' + 2 <= A /\ Forall (fun c => nlen c <= A) out'.
Proof.
  intros HA. induction buf as [|b r IH]; intros crc aux out Ha Ho.
  - cbn. auto.
  - cbn [flush_loop]. pose proof (nlen_esc_byte b) as Hb.
    destruct (A <=? nlen aux + 3) eqn:E; cbn [fst snd].
    + apply IH.
      * cbn [app]. lia.
      * apply Forall_app. split; [exact Ho|]. constructor; [lia|constructor].
    + apply N.leb_gt in E. apply IH.
      * rewrite nlen_app. lia.
      * exact Ho.
Qed.

(* the staging buffer of A >= 8 bytes is never overrun and every write is at most A bytes *)
Lemma flush_chunks_bound A buf : 8 <= A -> Forall (fun c => nlen c <= A) (flush_chunks A buf).
Proof.
  intros HA. unfold flush_chunks. destruct buf as [|b0 r0]; [constructor|].
  pose proof (flush_loop_bound A (b0 :: r0) HA 0 [pkt_magic] []) as H.
  destruct (flush_loop A (b0 :: r0) 0 [pkt_magic] []) as [[crc aux] out].
  destruct H as [Ha Ho]; [cbn; lia | constructor |].
  pose proof (nlen_esc_byte crc) as Hb.
  destruct (A <=? nlen aux + 4) eqn:E; cbn [fst snd].
  - apply Forall_app. split.
    + apply Forall_app. split; [exact Ho|]. constructor; [lia|constructor].
    + constructor; [|constructor]. cbn [app]. rewrite nlen_app. unfold nlen at 2. cbn. lia.
  - apply N.leb_gt in E. apply Forall_app. split; [exact Ho|].
    constructor; [|constructor]. rewrite !nlen_app. unfold nlen at 3. cbn. lia.
Qed.

(* ------------------------------------------------------------------ *)
(* Transmit buffer: invariants and the packet partition               *)
(* ------------------------------------------------------------------ *)
Definition nonempty_msgs (l : list msg) : Prop := Forall (fun m => m <> []) l.

Lemma concat_nil_nonempty (l : list msg) : nonempty_msgs l -> concat l = [] -> l = [].
Proof.
  intros H E. destruct l as [|m r]; [reflexivity|].
  inversion H as [|? ? Hm _]; subst. cbn in E. apply app_eq_nil in E as [E _]. congruence.
Qed.

(* packets emitted so far, with everything that must be true of each *)
Definition pkt_ok (p : N * packet) : Prop :=
  snd p <> [] /\ nonempty_msgs (snd p) /\
  ((2 <= length (snd p))%nat -> nlen (concat (snd p)) <= fst p) /\ 64 <= fst p.

Definition tx_inv (s : tx) : Prop :=
  nonempty_msgs (bufm s) /\ 64 <= cap s /\ 64 <= fillcap s /\
  ((2 <= length (bufm s))%nat -> nlen (tx_bytes s) <= fillcap s).

Lemma tx_init_inv : tx_inv tx_init.
Proof.
  unfold tx_inv, tx_init; cbn [bufm cap fillcap].
  split; [constructor|]. split; [vm_compute; discriminate|]. split; [vm_compute; discriminate|].
  cbn. intros; lia.
Qed.

Lemma tx_flush_spec s : tx_inv s ->
  let '(s', ps) := tx_flush s in
  tx_inv s' /\ bufm s' = [] /\ cap s' = cap s /\ Forall pkt_ok ps /\ flat_map snd ps = bufm s.
Proof.
  intros (Hne & Hc & Hf & Hl). unfold tx_flush.
  split; [|split; [reflexivity|split; [reflexivity|]]].
  - unfold tx_inv; cbn [bufm cap fillcap]. split; [constructor|]. split; [exact Hc|]. split; [exact Hf|].
    cbn. intros; lia.
  - unfold tx_bytes. destruct (concat (bufm s)) eqn:E.
    + apply concat_nil_nonempty in E; [|exact Hne]. rewrite E. split; constructor.
    + split.
      * constructor; [|constructor]. unfold pkt_ok; cbn. repeat split; auto.
        intro E'. rewrite E' in E. discriminate.
      * cbn. apply app_nil_r.
Qed.

Lemma nonempty_app a b : nonempty_msgs a -> nonempty_msgs b -> nonempty_msgs (a ++ b).
Proof. intros; apply Forall_app; auto. Qed.

Lemma flush_if_spec b s : tx_inv s ->
  tx_inv (fst (flush_if b s)) /\ cap (fst (flush_if b s)) = cap s /\
  Forall pkt_ok (snd (flush_if b s)) /\
  flat_map snd (snd (flush_if b s)) ++ bufm (fst (flush_if b s)) = bufm s /\
  (b = true -> bufm (fst (flush_if b s)) = []) /\ (b = false -> fst (flush_if b s) = s).
Proof.
  intros Hinv. unfold flush_if. destruct b.
  - pose proof (tx_flush_spec s Hinv) as H. destruct (tx_flush s) as [s' ps].
    destruct H as (Hi & Hb & Hc & Hp & Hf). cbn [fst snd]. rewrite Hb, app_nil_r.
    split; [exact Hi|]. split; [exact Hc|]. split; [exact Hp|]. split; [exact Hf|].
    split; [reflexivity|discriminate].
  - cbn [fst snd]. split; [exact Hinv|]. split; [reflexivity|]. split; [constructor|].
    split; [reflexivity|]. split; [discriminate|reflexivity].
Qed.

Lemma tx_add_spec s m : tx_inv s -> m <> [] ->
  let '(s', ps) := tx_add s m in
  tx_inv s' /\ cap s' = cap s /\ Forall pkt_ok ps /\ flat_map snd ps ++ bufm s' = bufm s ++ [m].
Proof.
  intros Hinv Hm. unfold tx_add. cbv zeta.
  set (b1 := cap s <? nlen m + nlen (tx_bytes s)).
  destruct (flush_if_spec b1 s Hinv) as (Hi1 & Hc1 & Hp1 & Hf1 & Ht1 & Hn1).
  set (r1 := flush_if b1 s) in *.
  set (s2 := push_msg (fst r1) m).
  assert (Hi2 : tx_inv s2).
  { destruct Hi1 as (Hne1 & Hcc & _ & _).
    unfold tx_inv, s2, push_msg; cbn [bufm cap fillcap]. split; [|split; [exact Hcc|split; [exact Hcc|]]].
    - apply nonempty_app; [exact Hne1|]. constructor; [exact Hm|constructor].
    - intros Hlen. unfold tx_bytes; cbn [bufm]. destruct b1 eqn:Eb.
      + rewrite (Ht1 eq_refl) in Hlen. cbn in Hlen. lia.
      + rewrite (Hn1 eq_refl) in *. subst b1. apply N.ltb_ge in Eb. unfold tx_bytes in Eb.
        rewrite concat_app, nlen_app. cbn [concat]. rewrite app_nil_r. lia. }
  set (b3 := cap s2 - 4 <? nlen (tx_bytes s2)).
  destruct (flush_if_spec b3 s2 Hi2) as (Hi3 & Hc3 & Hp3 & Hf3 & _ & _).
  set (r3 := flush_if b3 s2) in *. cbn [fst snd].
  split; [exact Hi3|]. split; [rewrite Hc3; unfold s2, push_msg; cbn [cap]; exact Hc1|].
  split; [apply Forall_app; auto|].
  rewrite flat_map_app, <- app_assoc, Hf3. unfold s2, push_msg; cbn [bufm].
  rewrite app_assoc, Hf1. reflexivity.
Qed.

Lemma tx_setcap_inv s c : tx_inv s -> tx_inv (tx_setcap s c) /\ bufm (tx_setcap s c) = bufm s.
Proof.
  intros (Hne & Hc & Hf & Hl). unfold tx_setcap, tx_inv; cbn. repeat split; auto.
  destruct (c <=? 64) eqn:E; [lia|]. apply N.leb_gt in E. lia.
Qed.

Definition ops_nonempty (ops : list op) : Prop :=
  Forall (fun o => match o with Add m => m <> [] | _ => True end) ops.

Lemma tx_step_spec s o : tx_inv s -> (match o with Add m => m <> [] | _ => True end) ->
  let '(s', ps) := tx_step s o in
  tx_inv s' /\ Forall pkt_ok ps /\ flat_map snd ps ++ bufm s' = bufm s ++ added [o].
Proof.
  intros Hi Ho. destruct o as [m| |c]; cbn [tx_step added flat_map].
  - pose proof (tx_add_spec s m Hi Ho) as H. destruct (tx_add s m) as [s' ps].
    destruct H as (A & _ & B & C). rewrite app_nil_r. auto.
  - pose proof (tx_flush_spec s Hi) as H. destruct (tx_flush s) as [s' ps].
    destruct H as (A & B & _ & C & D). rewrite B, !app_nil_r. auto.
  - destruct (tx_setcap_inv s c Hi) as [A B]. rewrite B. cbn. rewrite app_nil_r. auto.
Qed.

Lemma added_app a b : added (a ++ b) = added a ++ added b.
Proof. unfold added. apply flat_map_app. Qed.

Lemma tx_run_spec ops : forall s, tx_inv s -> ops_nonempty ops ->
  let '(s', ps) := tx_run s ops in
  tx_inv s' /\ Forall pkt_ok ps /\ flat_map snd ps ++ bufm s' = bufm s ++ added ops.
Proof.
  induction ops as [|o r IH]; intros s Hi Hops.
  - cbn. rewrite app_nil_r. auto.
  - cbn [tx_run]. inversion Hops as [|? ? Ho Hr]; subst.
    pose proof (tx_step_spec s o Hi Ho) as H1. destruct (tx_step s o) as [s1 p1].
    destruct H1 as (Hi1 & Hp1 & Hf1).
    specialize (IH s1 Hi1 Hr). destruct (tx_run s1 r) as [s2 p2].
    destruct IH as (Hi2 & Hp2 & Hf2).
    split; [exact Hi2|]. split; [apply Forall_app; auto|].
    rewrite flat_map_app, <- app_assoc, Hf2, app_assoc, Hf1.
    change (o :: r) with ([o] ++ r). rewrite added_app, app_assoc. reflexivity.
Qed.

Lemma tx_run_app s a b :
  tx_run s (a ++ b) =
  let '(s1, p1) := tx_run s a in let '(s2, p2) := tx_run s1 b in (s2, p1 ++ p2).
Proof.
  revert s. induction a as [|o r IH]; intros s.
  - cbn. destruct (tx_run s b). reflexivity.
  - cbn [app tx_run]. destruct (tx_step s o) as [s1 p1]. rewrite IH.
    destruct (tx_run s1 r) as [s2 p2]. destruct (tx_run s2 b) as [s3 p3].
    rewrite app_assoc. reflexivity.
Qed.

(* After a final flush: the emitted packets partition the added messages, in order *)
Lemma tx_run_flushed ops : ops_nonempty ops ->
  let ps := snd (tx_run tx_init (ops ++ [Flush])) in
  Forall pkt_ok ps /\ flat_map snd ps = added ops.
Proof.
  intros Hops.
  assert (Hops' : ops_nonempty (ops ++ [Flush])).
  { apply Forall_app. split; [exact Hops|]. constructor; [exact I|constructor]. }
  pose proof (tx_run_spec (ops ++ [Flush]) tx_init tx_init_inv Hops') as H.
  rewrite tx_run_app in *.
  pose proof (tx_run_spec ops tx_init tx_init_inv Hops) as H0.
  destruct (tx_run tx_init ops) as [s1 p1]. destruct H0 as (Hi1 & _ & _).
  cbn [tx_run tx_step] in *.
  pose proof (tx_flush_spec s1 Hi1) as Hfl.
  destruct (tx_flush s1) as [s2 p2]. destruct Hfl as (_ & Hb2 & _).
  cbn [snd]. destruct H as (_ & Hp & Hf). rewrite app_nil_r in *.
  split; [exact Hp|]. rewrite Hb2, app_nil_r in Hf. rewrite Hf. cbn [tx_init bufm app].
  rewrite added_app. cbn. rewrite app_nil_r. reflexivity.
Qed.

(* wire bytes = concatenation of frames *)
Lemma wire_frames ps : Forall pkt_ok ps ->
  wire ps = flat_map (fun p => frame (concat (snd p))) ps.
Proof.
  induction ps as [|p r IH]; intros H; [reflexivity|].
  inversion H as [|? ? Hp Hr]; subst.
  unfold wire, wire_chunks in *. cbn [flat_map]. rewrite concat_app, IH by exact Hr.
  f_equal. unfold pkt_chunks. apply flush_chunks_concat.
  destruct Hp as (Hne & Hnm & _). intro E. apply concat_nil_nonempty in E; auto.
Qed.

(* ------------------------------------------------------------------ *)
(* Reference decoder accepts the wire and returns the messages         *)
(* ------------------------------------------------------------------ *)
Lemma split_magic_nomagic x cur rest :
  ~ In pkt_magic x ->
  split_magic (x ++ pkt_magic :: rest) cur =
  let '(segs, r) := split_magic rest [] in ((cur ++ x) :: segs, r).
Proof.
  revert cur. induction x as [|b x IH]; intros cur Hn.
  - cbn [app split_magic]. rewrite N.eqb_refl. rewrite app_nil_r. reflexivity.
  - cbn [app split_magic]. destruct (b =? pkt_magic) eqn:E.
    + apply N.eqb_eq in E. exfalso. apply Hn. left. exact E.
    + rewrite IH by (intro; apply Hn; right; assumption).
      rewrite <- app_assoc. reflexivity.
Qed.

Lemma frame_shape p : exists x, ~ In pkt_magic x /\ frame p = pkt_magic :: x ++ [pkt_magic] /\
                                 unescape x = Some (p ++ [crc8 p]).
Proof.
  exists (escape p ++ esc_byte (crc8 p)). split; [|split].
  - intro H. apply in_app_or in H as [H|H]; [exact (escape_no_magic _ H) | exact (esc_byte_no_magic _ H)].
  - unfold frame. rewrite <- app_assoc. reflexivity.
  - rewrite <- escape_single, <- escape_app. apply unescape_escape.
Qed.

Lemma split_magic_frame p rest :
  exists x, ~ In pkt_magic x /\ unescape x = Some (p ++ [crc8 p]) /\
  split_magic (frame p ++ rest) [] =
  let '(segs, r) := split_magic rest [] in ([] :: x :: segs, r).
Proof.
  destruct (frame_shape p) as (x & Hn & Hf & Hu). exists x. split; [exact Hn|]. split; [exact Hu|].
  rewrite Hf. cbn [app split_magic]. rewrite N.eqb_refl.
  rewrite <- app_assoc. cbn [app]. rewrite split_magic_nomagic by exact Hn.
  destruct (split_magic rest []) as [segs r]. reflexivity.
Qed.

Definition wf_msgs (l : list msg) : Prop := Forall (fun m => wf_msg m = true) l.

Lemma wf_msg_nonempty m : wf_msg m = true -> m <> [].
Proof. destruct m; cbn; congruence. Qed.

Lemma wf_nonempty l : wf_msgs l -> nonempty_msgs l.
Proof. intros H. eapply Forall_impl; [|exact H]. intros; apply wf_msg_nonempty; assumption. Qed.

Lemma split_msgs_concat (l : list msg) : wf_msgs l -> forall fuel,
  (length (concat l) <= fuel)%nat -> split_msgs fuel (concat l) = Some l.
Proof.
  induction l as [|m r IH]; intros Hwf fuel Hf.
  - cbn. destruct fuel; reflexivity.
  - inversion Hwf as [|? ? Hm Hr]; subst.
    destruct m as [|l0 m']; [discriminate|]. cbn in Hm. apply N.eqb_eq in Hm.
    destruct fuel as [|f]; [cbn in Hf; lia|].
    cbn [concat]. cbn [app split_msgs].
    assert (Hn : S (N.to_nat l0) = length (l0 :: m')) by (cbn; unfold nlen in Hm; lia).
    rewrite Hn.
    assert (Hlt : (length (l0 :: m' ++ concat r) <? length (l0 :: m'))%nat = false).
    { apply Nat.ltb_ge. cbn. rewrite app_length. lia. }
    rewrite Hlt.
    change (l0 :: m' ++ concat r) with ((l0 :: m') ++ concat r).
    rewrite firstn_app, Nat.sub_diag, firstn_all. cbn [firstn]. rewrite app_nil_r.
    rewrite skipn_app, Nat.sub_diag, skipn_all. cbn [skipn app].
    rewrite IH; [reflexivity | exact Hr |]. cbn in Hf. rewrite app_length in Hf. lia.
Qed.

Lemma decode_segment_frame x p :
  wf_msgs p -> p <> [] -> unescape x = Some (concat p ++ [crc8 (concat p)]) ->
  decode_segment x = Some p.
Proof.
  intros Hwf Hne Hu. unfold decode_segment. destruct x as [|b x'].
  - cbn in Hu. injection Hu as Hu. destruct (concat p); discriminate.
  - rewrite Hu, crc8_self. cbn [N.eqb]. rewrite removelast_last.
    apply split_msgs_concat; [exact Hwf|]. rewrite app_length. lia.
Qed.

Lemma ref_decode_frames (ps : list packet) :
  Forall (fun p => p <> [] /\ wf_msgs p) ps ->
  ref_decode (flat_map (fun p => frame (concat p)) ps) = Some (concat ps).
Proof.
  unfold ref_decode. induction ps as [|p r IH]; intros H; [reflexivity|].
  inversion H as [|? ? [Hne Hwf] Hr]; subst. specialize (IH Hr).
  cbn [flat_map concat].
  destruct (split_magic_frame (concat p) (flat_map (fun p0 => frame (concat p0)) r)) as (x & Hn & Hu & Hs).
  rewrite Hs. destruct (split_magic (flat_map (fun p0 => frame (concat p0)) r) []) as [segs rest].
  destruct rest; [|discriminate].
  cbn [decode_segments]. rewrite (decode_segment_frame x p Hwf Hne Hu).
  cbn [decode_segment]. rewrite IH. reflexivity.
Qed.

Lemma flat_map_concat_map {A B} (f : A -> list B) l : flat_map f l = concat (map f l).
Proof. induction l; cbn; congruence. Qed.

Lemma Forall_concat_iff {X} (P : X -> Prop) (ll : list (list X)) :
  Forall P (concat ll) <-> Forall (Forall P) ll.
Proof.
  induction ll as [|l r IH]; cbn; split; intro H; try constructor.
  - apply Forall_app in H. tauto.
  - apply IH. apply Forall_app in H. tauto.
  - inversion H; subst. apply Forall_app. split; [assumption|apply IH; assumption].
Qed.

Definition ops_wf (ops : list op) : Prop :=
  Forall (fun o => match o with Add m => wf_msg m = true | _ => True end) ops.

Lemma ops_wf_nonempty ops : ops_wf ops -> ops_nonempty ops.
Proof.
  intros H. eapply Forall_impl; [|exact H]. intros [m| |c]; auto. apply wf_msg_nonempty.
Qed.

Lemma ops_wf_added ops : ops_wf ops -> wf_msgs (added ops).
Proof.
  induction ops as [|o r IH]; intros H; [constructor|].
  inversion H as [|? ? Ho Hr]; subst. unfold added. cbn [flat_map].
  apply Forall_app. split; [|apply IH; exact Hr]. destruct o; try constructor; auto.
Qed.

(* The main C01 statement *)
Lemma c01_wire ops : ops_wf ops ->
  let ps := snd (tx_run tx_init (ops ++ [Flush])) in
  wire ps = flat_map (fun p => frame (concat (snd p))) ps /\
  concat (map snd ps) = added ops /\
  Forall pkt_ok ps.
Proof.
  intros Hwf. pose proof (tx_run_flushed ops (ops_wf_nonempty ops Hwf)) as [Hp Hf].
  cbv zeta. split; [apply wire_frames; exact Hp|]. split; [|exact Hp].
  rewrite <- flat_map_concat_map. exact Hf.
Qed.

Lemma c01_decodes ops : ops_wf ops ->
  ref_decode (wire (snd (tx_run tx_init (ops ++ [Flush])))) = Some (added ops).
Proof.
  intros Hwf. destruct (c01_wire ops Hwf) as (Hw & Hc & Hp). cbv zeta in *.
  set (ps := snd (tx_run tx_init (ops ++ [Flush]))) in *.
  rewrite Hw.
  assert (E : flat_map (fun p => frame (concat (snd p))) ps =
              flat_map (fun p => frame (concat p)) (map snd ps)).
  { clear. induction ps; cbn; congruence. }
  rewrite E, ref_decode_frames; [rewrite Hc; reflexivity|].
  pose proof (ops_wf_added ops Hwf) as Hwa. rewrite <- Hc in Hwa.
  unfold wf_msgs in Hwa. rewrite Forall_concat_iff in Hwa.
  rewrite Forall_forall in *. intros p Hin. split.
  - apply in_map_iff in Hin as (q & <- & Hq). destruct (Hp q Hq) as (Hne & _). exact Hne.
  - apply Hwa. exact Hin.
Qed.

(* capacities reported with the packets are real ones: the default or an announced value *)
Definition caps_of (ops : list op) : list N :=
  default_cap :: flat_map (fun o => match o with SetCap c => [if c <=? 64 then 64 else c] | _ => [] end) ops.

Lemma tx_run_caps ops : forall s (K : list N),
  In (cap s) K -> In (fillcap s) K ->
  (forall c, In (SetCap c) ops -> In (if c <=? 64 then 64 else c) K) ->
  let '(s', ps) := tx_run s ops in
  In (cap s') K /\ In (fillcap s') K /\ Forall (fun p => In (fst p) K) ps.
Proof.
  induction ops as [|o r IH]; intros s K Hc Hf HK.
  - cbn. auto.
  - cbn [tx_run].
    assert (H1 : let '(s1, p1) := tx_step s o in
                 In (cap s1) K /\ In (fillcap s1) K /\ Forall (fun p => In (fst p) K) p1).
    { destruct o as [m| |c]; cbn [tx_step].
      - unfold tx_add. cbv zeta.
        assert (FI : forall b s0, In (cap s0) K -> In (fillcap s0) K ->
                  In (cap (fst (flush_if b s0))) K /\ In (fillcap (fst (flush_if b s0))) K /\
                  Forall (fun p => In (fst p) K) (snd (flush_if b s0))).
        { intros b s0 H1 H2. unfold flush_if, tx_flush. destruct b; cbn [fst snd cap fillcap].
          - split; [exact H1|]. split; [exact H2|]. destruct (tx_bytes s0); constructor; auto.
          - auto. }
        destruct (FI (cap s <? nlen m + nlen (tx_bytes s)) s Hc Hf) as (A1 & B1 & C1).
        set (r1 := flush_if (cap s <? nlen m + nlen (tx_bytes s)) s) in *.
        set (s2 := push_msg (fst r1) m).
        assert (A2 : In (cap s2) K) by (unfold s2, push_msg; cbn [cap]; exact A1).
        assert (B2 : In (fillcap s2) K) by (unfold s2, push_msg; cbn [fillcap]; exact A1).
        destruct (FI (cap s2 - 4 <? nlen (tx_bytes s2)) s2 A2 B2) as (A3 & B3 & C3).
        cbn [fst snd]. split; [exact A3|]. split; [exact B3|]. apply Forall_app. auto.
      - unfold tx_flush. cbn [cap fillcap]. split; [exact Hc|]. split; [exact Hf|].
        destruct (tx_bytes s); constructor; auto.
      - unfold tx_setcap. cbn [cap fillcap]. split; [apply HK; left; reflexivity|]. auto. }
    destruct (tx_step s o) as [s1 p1]. destruct H1 as (Hc1 & Hf1 & Hp1).
    specialize (IH s1 K Hc1 Hf1). destruct (tx_run s1 r) as [s2 p2].
    destruct IH as (A & B & C); [intros c Hin; apply HK; right; exact Hin|].
    split; [exact A|]. split; [exact B|]. apply Forall_app. auto.
Qed.

Lemma c01_caps_real ops :
  Forall (fun p => In (fst p) (caps_of ops)) (snd (tx_run tx_init ops)).
Proof.
  pose proof (tx_run_caps ops tx_init (caps_of ops)) as H.
  destruct (tx_run tx_init ops) as [s ps]. cbn [snd]. apply H.
  - left. reflexivity.
  - left. reflexivity.
  - intros c Hin. right. apply in_flat_map. exists (SetCap c). split; [exact Hin|]. left. reflexivity.
Qed.

(* encode_msg produces a well-formed message *)
Lemma encode_msg_wf a seq ty data m : encode_msg a seq ty data = Some m -> wf_msg m = true.
Proof.
  unfold encode_msg. destruct (255 <? nlen data + nlen (addr_bytes a) + 3) eqn:E; [discriminate|].
  intros H. injection H as <-. cbn [wf_msg]. apply N.eqb_eq.
  rewrite nlen_app. unfold nlen. cbn [length]. lia.
Qed.

(* ------------------------------------------------------------------ *)
(* Histories with capacity announcements arriving as uplink messages   *)
(* ------------------------------------------------------------------ *)
(* an announcement is the direct setter call or nothing *)
Definition lower (h : hop) : list op :=
  match h with
  | Op o => [o]
  | Announce d k c => if announce_applies d k then [SetCap c] else []
  end.

Lemma h_step_lower s h : h_step s h = tx_run s (lower h).
Proof.
  destruct h as [o|d k c]; cbn [h_step lower].
  - cbn [tx_run]. destruct (tx_step s o) as [s1 p1]. rewrite app_nil_r. reflexivity.
  - destruct (announce_applies d k); reflexivity.
Qed.

Lemma h_run_lower hs : forall s, h_run s hs = tx_run s (flat_map lower hs).
Proof.
  induction hs as [|h r IH]; intros s; [reflexivity|].
  cbn [h_run flat_map]. rewrite tx_run_app, h_step_lower.
  destruct (tx_run s (lower h)) as [s1 p1]. rewrite IH. reflexivity.
Qed.

Lemma h_run_app s a b :
  h_run s (a ++ b) =
  let '(s1, p1) := h_run s a in let '(s2, p2) := h_run s1 b in (s2, p1 ++ p2).
Proof. rewrite !h_run_lower, flat_map_app, tx_run_app. destruct (tx_run s (flat_map lower a)) as [s1 p1]. rewrite h_run_lower. reflexivity. Qed.

Definition hops_wf (hs : list hop) : Prop :=
  Forall (fun h => match h with Op (Add m) => wf_msg m = true | _ => True end) hs.

Lemma hops_wf_lower hs : hops_wf hs -> ops_wf (flat_map lower hs).
Proof.
  induction hs as [|h r IH]; intros H; [constructor|].
  inversion H as [|? ? Hh Hr]; subst. cbn [flat_map]. apply Forall_app. split; [|apply IH; exact Hr].
  destruct h as [o|d k c]; cbn [lower].
  - constructor; [|constructor]. destruct o; auto.
  - destruct (announce_applies d k); [constructor; [exact I|constructor]|constructor].
Qed.

Lemma hadded_lower hs : added (flat_map lower hs) = hadded hs.
Proof.
  induction hs as [|h r IH]; [reflexivity|].
  cbn [flat_map]. rewrite added_app, IH. unfold hadded at 2. cbn [flat_map]. fold (hadded r). f_equal.
  destruct h as [[m| |c]|d k c]; cbn [lower]; try reflexivity.
  destruct (announce_applies d k); reflexivity.
Qed.

Lemma lower_flush hs : flat_map lower (hs ++ [Op Flush]) = flat_map lower hs ++ [Flush].
Proof. rewrite flat_map_app. reflexivity. Qed.

Lemma c01h_wire hs : hops_wf hs ->
  let ps := snd (h_run tx_init (hs ++ [Op Flush])) in
  wire ps = flat_map (fun p => frame (concat (snd p))) ps /\
  concat (map snd ps) = hadded hs /\
  Forall pkt_ok ps.
Proof.
  intros Hwf. cbv zeta. rewrite h_run_lower, lower_flush, <- hadded_lower.
  exact (c01_wire _ (hops_wf_lower hs Hwf)).
Qed.

Lemma c01h_decodes hs : hops_wf hs ->
  ref_decode (wire (snd (h_run tx_init (hs ++ [Op Flush])))) = Some (hadded hs).
Proof.
  intros Hwf. rewrite h_run_lower, lower_flush, <- hadded_lower.
  exact (c01_decodes _ (hops_wf_lower hs Hwf)).
Qed.

Lemma clamp_max c : (if c <=? 64 then 64 else c) = N.max 64 c.
Proof. destruct (c <=? 64) eqn:E; [apply N.leb_le in E|apply N.leb_gt in E]; lia. Qed.

(* capacities attached to packets: the default, a direct call, or an announcement of the interface
   outside debug mode *)
Definition hcaps_of (hs : list hop) : list N :=
  64 :: flat_map (fun h => match h with
                           | Op (SetCap c) => [N.max 64 c]
                           | Announce false O c => [N.max 64 c]
                           | _ => []
                           end) hs.

Lemma caps_of_lower hs : caps_of (flat_map lower hs) = hcaps_of hs.
Proof.
  unfold caps_of, hcaps_of. f_equal.
  induction hs as [|h r IH]; [reflexivity|].
  cbn [flat_map]. rewrite flat_map_app, IH. f_equal.
  destruct h as [[m| |c]|d k c]; cbn [lower flat_map]; try reflexivity.
  - rewrite clamp_max. reflexivity.
  - destruct d; [reflexivity|]. destruct k; cbn; [rewrite clamp_max|]; reflexivity.
Qed.

Lemma c01h_caps_real hs :
  Forall (fun p => In (fst p) (hcaps_of hs)) (snd (h_run tx_init hs)).
Proof. rewrite h_run_lower, <- caps_of_lower. apply c01_caps_real. Qed.

(* ---- exactly when the capacity in force changes ---- *)
Lemma flush_if_cap b s : cap (fst (flush_if b s)) = cap s.
Proof. destruct b; reflexivity. Qed.

Lemma tx_add_cap s m : cap (fst (tx_add s m)) = cap s.
Proof. unfold tx_add. cbv zeta. cbn [fst]. rewrite flush_if_cap. unfold push_msg. cbn [cap]. apply flush_if_cap. Qed.

Lemma h_step_cap s h : cap (fst (h_step s h)) = cap_after (cap s) h.
Proof.
  destruct h as [[m| |c]|d k c]; cbn [h_step tx_step cap_after fst].
  - apply tx_add_cap.
  - reflexivity.
  - unfold tx_setcap. cbn [cap]. apply clamp_max.
  - destruct d; cbn [announce_applies negb andb]; [reflexivity|].
    destruct k; cbn [Nat.eqb fst]; [unfold tx_setcap; cbn [cap]; apply clamp_max|reflexivity].
Qed.

Lemma h_run_cap hs : forall s, cap (fst (h_run s hs)) = fold_left cap_after hs (cap s).
Proof.
  induction hs as [|h r IH]; intros s; [reflexivity|].
  cbn [h_run fold_left]. pose proof (h_step_cap s h) as H1. destruct (h_step s h) as [s1 p1].
  specialize (IH s1). destruct (h_run s1 r) as [s2 p2]. cbn [fst] in *. rewrite IH, H1. reflexivity.
Qed.

Lemma c01h_cap_in_force hs : cap (fst (h_run tx_init hs)) = cap_in_force hs.
Proof. rewrite h_run_cap. reflexivity. Qed.

Lemma cap_after_changes c h : cap_after c h <> c ->
  exists v, (h = Op (SetCap v) \/ h = Announce false 0 v) /\ cap_after c h = N.max 64 v.
Proof.
  destruct h as [[m| |v]|d k v]; cbn [cap_after]; try congruence.
  - intros _. exists v. auto.
  - destruct d; [congruence|]. destruct k; [|congruence]. intros _. exists v. auto.
Qed.

Lemma h_step_cap_changes s h : cap (fst (h_step s h)) <> cap s ->
  exists v, (h = Op (SetCap v) \/ h = Announce false 0 v) /\ cap (fst (h_step s h)) = N.max 64 v.
Proof. rewrite h_step_cap. apply cap_after_changes. Qed.

(* an announcement that does not apply leaves the whole transmit state alone and emits nothing *)
Lemma announce_ignored s d k c : (d = true \/ k <> O) -> h_step s (Announce d k c) = (s, []).
Proof.
  intros [-> | Hk]; cbn [h_step announce_applies negb andb]; [reflexivity|].
  destruct k; [congruence|]. unfold announce_applies. cbn [Nat.eqb]. rewrite andb_false_r. reflexivity.
Qed.

(* an announcement never touches the buffered messages and never emits a packet *)
Lemma announce_keeps_buffer s d k c :
  bufm (fst (h_step s (Announce d k c))) = bufm s /\ snd (h_step s (Announce d k c)) = [] /\
  fillcap (fst (h_step s (Announce d k c))) = fillcap s.
Proof. cbn [h_step]. destruct (announce_applies d k); cbn; auto. Qed.

(* ---- every chunk handed to the write callback fits the staging buffer ---- *)
Lemma flush_loop_nonempty A buf : forall crc aux out,
  aux <> [] -> Forall (fun c => c <> []) out ->
  let '(_, aux', out') := flush_loop A buf crc aux out in
  aux' <> [] /\ Forall (fun c => c <> []) out'.
Proof.
  induction buf as [|b r IH]; intros crc aux out Ha Ho.
  - cbn. auto.
  - cbn [flush_loop].
    assert (Hb : forall x, x ++ esc_byte b <> []).
    { intros x E. apply app_eq_nil in E as [_ E]. unfold esc_byte in E. destruct (is_special b); discriminate. }
    destruct (A <=? nlen aux + 3); cbn [fst snd]; apply IH; auto.
    apply Forall_app. split; [exact Ho|]. constructor; [exact Ha|constructor].
Qed.

Lemma flush_chunks_nonempty A buf : Forall (fun c => c <> []) (flush_chunks A buf).
Proof.
  unfold flush_chunks. destruct buf as [|b0 r0]; [constructor|].
  pose proof (flush_loop_nonempty A (b0 :: r0) 0 [pkt_magic] []) as H.
  destruct (flush_loop A (b0 :: r0) 0 [pkt_magic] []) as [[crc aux] out].
  destruct H as [Ha Ho]; [discriminate|constructor|].
  assert (Hl : forall x, x ++ esc_byte crc ++ [pkt_magic] <> []).
  { intros x E. apply app_eq_nil in E as [_ E]. apply app_eq_nil in E as [_ E]. discriminate. }
  destruct (A <=? nlen aux + 4); cbn [fst snd]; apply Forall_app; split.
  - apply Forall_app. split; [exact Ho|]. constructor; [exact Ha|constructor].
  - constructor; [apply Hl|constructor].
  - exact Ho.
  - constructor; [apply Hl|constructor].
Qed.

Lemma aux_size_ge8 : 8 <= tx_aux_size.
Proof. vm_compute. discriminate. Qed.

Lemma wire_chunks_fit ps :
  Forall (fun c => c <> [] /\ nlen c <= tx_aux_size) (wire_chunks ps).
Proof.
  unfold wire_chunks. induction ps as [|p r IH]; [constructor|].
  cbn [flat_map]. apply Forall_app. split; [|exact IH].
  unfold pkt_chunks.
  pose proof (flush_chunks_bound tx_aux_size (concat (snd p)) aux_size_ge8) as Hb.
  pose proof (flush_chunks_nonempty tx_aux_size (concat (snd p))) as Hn.
  rewrite Forall_forall in *. intros c Hc. split; [apply Hn|apply Hb]; exact Hc.
Qed.

Lemma c01h_chunks_fit hs s :
  Forall (fun c => c <> [] /\ nlen c <= tx_aux_size) (wire_chunks (snd (h_run s hs))).
Proof. apply wire_chunks_fit. Qed.

(* the second room check (before CRC and end delimiter) is needed: the same writer without it *)
Definition flush_chunks_no2 (A : N) (buf : list N) : list (list N) :=
  match buf with
  | [] => []
  | _ => let '(crc, aux, out) := flush_loop A buf 0 [pkt_magic] [] in
         out ++ [aux ++ esc_byte crc ++ [pkt_magic]]
  end.
