(* Properties_C01.v — C01: downlink bytes are well-formed packets carrying each message once, packed
   under the capacity in force (64 unless the interface announced more), handed to the write callback
   in chunks that fit the staging buffer. Statements only; every proof is `exact <lemma>`. *)
From Coq Require Import List NArith Bool.
From LB Require Import Tables Framing FramingProofs Rx FramingUplink Interleave.
Import ListNotations.
Local Open Scope N_scope.

(* A history is a list of `hop`: the three direct operations (Op (Add m) | Op Flush | Op (SetCap c)) and
   `Announce debug depth c` = a MSG_PKT_CAPACITY with capacity byte c delivered to the dispatcher, sent by
   the interface (depth 0) or a node behind it (depth 1..3), in or outside low-level debug mode.
   For EVERY history over well-formed messages, after a final flush the bytes given to the write
   callback are exactly the frames of a partition of the added messages (in order, none torn, duplicated
   or dropped); every packet is non-empty; a packet with two or more messages fits the capacity in force
   when its last message was added. *)
Theorem C01_wire : forall hs, hops_wf hs ->
  let ps := snd (h_run tx_init (hs ++ [Op Flush])) in
  wire ps = flat_map (fun p => frame (concat (snd p))) ps /\
  concat (map snd ps) = hadded hs /\
  Forall (fun p => snd p <> [] /\ Forall (fun m => m <> []) (snd p) /\
                   ((2 <= length (snd p))%nat -> nlen (concat (snd p)) <= fst p) /\ 64 <= fst p) ps.
Proof. exact c01h_wire. Qed.
Print Assumptions C01_wire.

(* the capacity attached to a packet is 64, a value set by the direct call, or a value announced by the
   interface outside debug mode - never one announced by a node behind the interface or in debug mode *)
Theorem C01_capacity_real : forall hs,
  Forall (fun p => In (fst p) (64 :: flat_map (fun h => match h with
                                                        | Op (SetCap c) => [N.max 64 c]
                                                        | Announce false O c => [N.max 64 c]
                                                        | _ => []
                                                        end) hs)) (snd (h_run tx_init hs)).
Proof. exact c01h_caps_real. Qed.
Print Assumptions C01_capacity_real.

(* exactly when the capacity in force changes: one step of any history, from any state. It becomes
   max(64, c) on the direct call and on an announcement of the interface (depth 0) outside debug mode,
   and is unchanged by every other step (add, flush, announcements of nodes behind the interface at
   any depth, anything in debug mode) *)
Theorem C01_capacity_step : forall s h,
  cap (fst (h_step s h)) =
  match h with
  | Op (SetCap c) => N.max 64 c
  | Announce false O c => N.max 64 c
  | _ => cap s
  end.
Proof. exact h_step_cap. Qed.
Print Assumptions C01_capacity_step.

Theorem C01_capacity_changes_only : forall s h, cap (fst (h_step s h)) <> cap s ->
  exists c, (h = Op (SetCap c) \/ h = Announce false 0 c) /\ cap (fst (h_step s h)) = N.max 64 c.
Proof. exact h_step_cap_changes. Qed.
Print Assumptions C01_capacity_changes_only.

(* an announcement that does not apply changes nothing at all; no announcement touches the buffered
   messages, the capacity they were filled under, or emits a packet *)
Theorem C01_announce_ignored : forall s d k c,
  ((d = true \/ k <> O) -> h_step s (Announce d k c) = (s, [])) /\
  bufm (fst (h_step s (Announce d k c))) = bufm s /\ snd (h_step s (Announce d k c)) = [] /\
  fillcap (fst (h_step s (Announce d k c))) = fillcap s.
Proof. exact (fun s d k c => conj (announce_ignored s d k c) (announce_keeps_buffer s d k c)). Qed.
Print Assumptions C01_announce_ignored.

(* the capacity in force after a whole history is the fold of the rule of the property text
   (cap_in_force: 64, then max(64,c) at each direct call / interface announcement outside debug mode) *)
Theorem C01_capacity_history : forall hs, cap (fst (h_run tx_init hs)) = cap_in_force hs.
Proof. exact c01h_cap_in_force. Qed.
Print Assumptions C01_capacity_history.

(* the independent reference decoder recovers exactly the added messages from the wire *)
Theorem C01_decodes : forall hs, hops_wf hs ->
  ref_decode (wire (snd (h_run tx_init (hs ++ [Op Flush])))) = Some (hadded hs).
Proof. exact c01h_decodes. Qed.
Print Assumptions C01_decodes.

(* what the write callback is handed, call by call (wire_chunks: one list per call; wire = their
   concatenation by definition): for EVERY history - every capacity 0..255 and beyond, every payload,
   well-formed or not, from every state - each chunk is non-empty and has at most
   PACKET_BUFFER_AUX_SIZE bytes (tx_aux_size, generated from the source). A chunk is the staging buffer
   buffer_aux[0 .. aux_index) at the moment of the call and the buffer only grows between two calls, so
   this is also "no store behind buffer_aux" *)
Theorem C01_chunks_fit : forall hs s,
  Forall (fun c => c <> [] /\ nlen c <= tx_aux_size) (wire_chunks (snd (h_run s hs))).
Proof. exact c01h_chunks_fit. Qed.
Print Assumptions C01_chunks_fit.

Theorem C01_wire_is_chunks : forall ps, wire ps = concat (wire_chunks ps).
Proof. exact (fun ps => eq_refl). Qed.
Print Assumptions C01_wire_is_chunks.

(* the room check in front of CRC and end delimiter is needed: the same writer without it
   (flush_chunks_no2) hands out 313 bytes for a 224-byte packet at capacity 255 whose escaped form
   reaches aux index 308 before its last byte, last byte 0xFE, CRC 0xFD; the real writer splits it *)
Theorem C01_room_check_tight :
  let buf := [223; 0; 1; 2] ++ repeat 254 84 ++ [26] ++ repeat 7 134 ++ [254] in
  wf_msg buf = true /\ crc8 buf = 253 /\
  map nlen (flush_chunks_no2 tx_aux_size buf) = [313] /\
  map nlen (flush_chunks tx_aux_size buf) = [310; 3].
Proof. vm_compute. repeat split; reflexivity. Qed.
Print Assumptions C01_room_check_tight.

(* no delimiter inside a frame body; specials are emitted as 0xFD, b xor 0x20 - also for the CRC *)
Theorem C01_escape_clean : forall p,
  ~ In pkt_magic (escape p ++ esc_byte (crc8 p)) /\
  escape p = flat_map (fun b => if (b =? 254) || (b =? 253) then [253; N.lxor b 32] else [b]) p /\
  unescape (escape p ++ esc_byte (crc8 p)) = Some (p ++ [crc8 p]) /\
  crc8 (p ++ [crc8 p]) = 0.
Proof.
  exact (fun p => conj (fun H => match in_app_or _ _ _ H with
                                 | or_introl a => escape_no_magic _ a
                                 | or_intror b => esc_byte_no_magic _ b end)
               (conj (escape_spec p)
               (conj (eq_trans (f_equal (fun x => unescape (escape p ++ x)) (eq_sym (escape_single (crc8 p))))
                               (eq_trans (f_equal unescape (eq_sym (escape_app p [crc8 p]))) (unescape_escape _)))
                     (crc8_self p)))).
Qed.
Print Assumptions C01_escape_clean.

(* the staged writer: for every staging size A >= 8 the concatenation of the chunks is the frame and
   no chunk exceeds A bytes (A = 312 in the code, from Tables) *)
Theorem C01_chunking : forall A buf, buf <> [] -> 8 <= A ->
  concat (flush_chunks A buf) = frame buf /\ Forall (fun c => nlen c <= A) (flush_chunks A buf).
Proof. exact (fun A buf Hne HA => conj (flush_chunks_concat A buf Hne) (flush_chunks_bound A buf HA)). Qed.
Print Assumptions C01_chunking.

Theorem C01_aux_size_ok : 8 <= tx_aux_size.
Proof. vm_compute. discriminate. Qed.

(* the generated CRC table is the reflected 0x8C polynomial, init 0, and T[0] = 0 *)
Theorem C01_crc_table : (forall x, x < 256 -> nth (N.to_nat x) crc_table 0 = crc_ref_byte x) /\
                        nth 0 crc_table 0 = 0 /\ length crc_table = 256%nat.
Proof. exact (conj crc_table_is_poly (conj crc_table_0 crc_table_length)). Qed.
Print Assumptions C01_crc_table.

(* message layout produces well-formed messages whenever the uint8 length does not wrap *)
Theorem C01_layout : forall a seq ty data m, encode_msg a seq ty data = Some m -> wf_msg m = true.
Proof. exact encode_msg_wf. Qed.
Print Assumptions C01_layout.

(* every interleaving of threads issuing well-formed operations - the receiver thread delivering
   announcements among them - is itself a history, hence satisfies C01_wire / C01_decodes /
   C01_chunks_fit (atomicity of the operations is the lock fact established under C10/C11) *)
Theorem C01_interleavings : forall (threads : list (list hop)) l,
  Forall hops_wf threads -> interleaving threads l ->
  ref_decode (wire (snd (h_run tx_init (l ++ [Op Flush])))) = Some (hadded l).
Proof.
  exact (fun threads l HF Hil => c01h_decodes l (interleaving_Forall _ threads l Hil HF)).
Qed.
Print Assumptions C01_interleavings.

(* the framed announcements the generator feeds to the receiver thread are, in the model of the
   receive path, exactly the Announce steps: interface, nodes at depth 1..3 (0xFE in an address needs
   escaping on the way in), in and outside debug mode; without a data byte nothing happens *)
Example C01_announce_received :
  snd (rx_hops false rx_init (frame (announce_msg [] 0 200))) = [Announce false 0 200] /\
  snd (rx_hops false rx_init (frame (announce_msg [5] 7 200))) = [Announce false 1 200] /\
  snd (rx_hops true rx_init (frame (announce_msg [254; 3] 99 64))) = [Announce true 2 64] /\
  snd (rx_hops false rx_init (frame (announce_msg [1; 2; 253] 0 255))) = [Announce false 3 255] /\
  snd (rx_hops false rx_init (frame [3; 0; 0; 138])) = [].
Proof. vm_compute. repeat split; reflexivity. Qed.

(* non-vacuity: a concrete history with an escaped payload byte, an escaped CRC, a capacity flush, an
   announcement of a node behind the interface (ignored), one in debug mode (ignored) and one of the
   interface (applied) *)
Example C01_nonvacuous :
  let hs := [Op (Add [3; 0; 1; 254]); Op (Add [4; 0; 1; 7; 111]); Announce false 1 200; Announce true 0 200;
             Op (Add [3; 0; 2; 253]); Announce false 0 100; Op (Add [3; 0; 2; 253])] in
  hops_wf hs /\ wire (snd (h_run tx_init (hs ++ [Op Flush]))) <> [] /\
  crc8 [4; 0; 1; 7; 111] = 254 /\
  cap_in_force (firstn 5 hs) = 64 /\ cap_in_force hs = 100.
Proof.
  cbv zeta. split; [repeat constructor|]. split; [vm_compute; discriminate|vm_compute; repeat split; reflexivity].
Qed.
