(* Framing.v — executable model of src/transmission/bidib_transmission_send.c
   (bidib_flush_impl, bidib_add_to_buffer, bidib_state_packet_capacity, message layout of
   bidib_buffer_message_with(out)_data), of the CRC in bidib_transmission_crc.c and of the
   MSG_PKT_CAPACITY case of bidib_handle_received_message (bidib_transmission_receive.c).
   No proofs in this file (so the model still runs when a proof breaks). *)
From Coq Require Import List NArith Bool Arith.
From LB Require Import Tables.
Import ListNotations.
Local Open Scope N_scope.

Definition nlen {A} (l : list A) : N := N.of_nat (length l).

(* ---- CRC8 (table driven, as the code) and the bit-serial reference ---- *)
Definition crc_step (crc b : N) : N := nth (N.to_nat (N.lxor b crc)) crc_table 0.
Definition crc8 (l : list N) : N := fold_left crc_step l 0.

(* reflected polynomial x^8+x^5+x^4+1 = 0x8C, init 0 : one byte, eight shifts *)
Definition crc_bit (c : N) : N :=
  if N.odd c then N.lxor (N.shiftr c 1) 140 else N.shiftr c 1.
Definition crc_ref_byte (x : N) : N :=
  crc_bit (crc_bit (crc_bit (crc_bit (crc_bit (crc_bit (crc_bit (crc_bit x))))))).

(* ---- escaping and the packet frame (the specification side of C01) ---- *)
Definition is_special (b : N) : bool := (b =? pkt_magic) || (b =? pkt_escape).
Definition esc_byte (b : N) : list N :=
  if is_special b then [pkt_escape; N.lxor b 32] else [b].
Definition escape (l : list N) : list N := flat_map esc_byte l.
Definition frame (p : list N) : list N :=
  pkt_magic :: escape p ++ esc_byte (crc8 p) ++ [pkt_magic].

(* ---- bidib_flush_impl with its staging buffer of A bytes ---- *)
Fixpoint flush_loop (A : N) (buf : list N) (crc : N) (aux : list N) (out : list (list N))
  : N * list N * list (list N) :=
  match buf with
  | [] => (crc, aux, out)
  | b :: r =>
      let ao := if A <=? nlen aux + 3 then ([], out ++ [aux]) else (aux, out) in
      flush_loop A r (crc_step crc b) (fst ao ++ esc_byte b) (snd ao)
  end.

Definition flush_chunks (A : N) (buf : list N) : list (list N) :=
  match buf with
  | [] => []
  | _ =>
      let '(crc, aux, out) := flush_loop A buf 0 [pkt_magic] [] in
      let ao := if A <=? nlen aux + 4 then ([], out ++ [aux]) else (aux, out) in
      snd ao ++ [fst ao ++ esc_byte crc ++ [pkt_magic]]
  end.

(* ---- the transmit buffer ---- *)
Notation msg := (list N) (only parsing).
Notation packet := (list (list N)) (only parsing).

(* bufm: buffer[0..buffer_index) kept as the list of messages it holds (buffer = concat bufm);
   cap: pkt_max_cap; fillcap: ghost - capacity in force when the last message was added *)
Record tx := { bufm : list msg; cap : N; fillcap : N }.
Definition tx_init : tx := {| bufm := []; cap := default_cap; fillcap := default_cap |}.

Definition tx_bytes (s : tx) : list N := concat (bufm s).

(* emitted packets carry the ghost capacity with them *)
Definition tx_flush (s : tx) : tx * list (N * packet) :=
  ({| bufm := []; cap := cap s; fillcap := fillcap s |},
   match tx_bytes s with [] => [] | _ => [(fillcap s, bufm s)] end).

Definition flush_if (b : bool) (s : tx) : tx * list (N * packet) :=
  if b then tx_flush s else (s, []).

Definition push_msg (s : tx) (m : msg) : tx :=
  {| bufm := bufm s ++ [m]; cap := cap s; fillcap := cap s |}.

Definition tx_add (s : tx) (m : msg) : tx * list (N * packet) :=
  let r1 := flush_if (cap s <? nlen m + nlen (tx_bytes s)) s in
  let s2 := push_msg (fst r1) m in
  let r3 := flush_if (cap s2 - 4 <? nlen (tx_bytes s2)) s2 in
  (fst r3, snd r1 ++ snd r3).

Definition tx_setcap (s : tx) (c : N) : tx :=
  {| bufm := bufm s; cap := if c <=? 64 then 64 else c; fillcap := fillcap s |}.

Inductive op := Add (m : msg) | Flush | SetCap (c : N).

Definition tx_step (s : tx) (o : op) : tx * list (N * packet) :=
  match o with
  | Add m => tx_add s m
  | Flush => tx_flush s
  | SetCap c => (tx_setcap s c, [])
  end.

Fixpoint tx_run (s : tx) (ops : list op) : tx * list (N * packet) :=
  match ops with
  | [] => (s, [])
  | o :: r => let '(s1, p1) := tx_step s o in
              let '(s2, p2) := tx_run s1 r in (s2, p1 ++ p2)
  end.

(* what the write callback sees: one list per call *)
Definition pkt_chunks (p : N * packet) : list (list N) := flush_chunks tx_aux_size (concat (snd p)).
Definition wire_chunks (ps : list (N * packet)) : list (list N) := flat_map pkt_chunks ps.
Definition wire (ps : list (N * packet)) : list N := concat (wire_chunks ps).

Definition added (ops : list op) : list msg :=
  flat_map (fun o => match o with Add m => [m] | _ => [] end) ops.

(* ---- histories: the direct operations plus packet-capacity announcements arriving as uplink messages ----
   Announce debug depth c : a MSG_PKT_CAPACITY with capacity byte c is delivered to
   bidib_handle_received_message; its sender's address stack has `depth` non-zero bytes (0 = the
   interface itself, 1..3 = a node behind it); debug = the library is in low-level debug mode at that
   moment. In debug mode every message but MSG_STALL goes to the message queue unprocessed; otherwise
   case MSG_PKT_CAPACITY calls bidib_state_packet_capacity(message[data_index]) iff addr_stack[0] == 0. *)
Inductive hop := Op (o : op) | Announce (debug : bool) (depth : nat) (c : N).

Definition announce_applies (debug : bool) (depth : nat) : bool := negb debug && (depth =? 0)%nat.

Definition h_step (s : tx) (h : hop) : tx * list (N * packet) :=
  match h with
  | Op o => tx_step s o
  | Announce d k c => if announce_applies d k then (tx_setcap s c, []) else (s, [])
  end.

Fixpoint h_run (s : tx) (hs : list hop) : tx * list (N * packet) :=
  match hs with
  | [] => (s, [])
  | h :: r => let '(s1, p1) := h_step s h in
              let '(s2, p2) := h_run s1 r in (s2, p1 ++ p2)
  end.

Definition hadded (hs : list hop) : list msg :=
  flat_map (fun h => match h with Op (Add m) => [m] | _ => [] end) hs.

(* specification side: the capacity in force after a history, written from the property text
   ("64 bytes unless the interface announced more"; the direct call is the library's own setter) *)
Definition cap_after (c : N) (h : hop) : N :=
  match h with
  | Op (SetCap v) => N.max 64 v
  | Announce false O v => N.max 64 v
  | _ => c
  end.
Definition cap_in_force (hs : list hop) : N := fold_left cap_after hs 64.

(* a message as the rest of the library hands it over: first byte = length of the rest *)
Definition wf_msg (m : msg) : bool :=
  match m with l :: r => l =? nlen r | [] => false end.

(* ---- message layout (bidib_buffer_message_with(out)_data) ---- *)
Definition addr3 := (N * N * N)%type.
Definition addr_bytes (a : addr3) : list N :=
  let '(t, s, ss) := a in
  if t =? 0 then [0] else if s =? 0 then [t; 0] else if ss =? 0 then [t; s; 0] else [t; s; ss; 0].

(* None = the uint8_t length computation wraps (VLA too small: memory error in the C) *)
Definition encode_msg (a : addr3) (seq ty : N) (data : list N) : option msg :=
  let ab := addr_bytes a in
  let total := nlen data + nlen ab + 3 in
  if 255 <? total then None
  else Some ((total - 1) :: ab ++ [seq; ty] ++ data).

(* ---- independent reference decoder written from the BiDiB serial-link description ---- *)
Fixpoint split_magic (w cur : list N) : list (list N) * list N :=
  match w with
  | [] => ([], cur)
  | b :: r => if b =? pkt_magic
              then let '(segs, rest) := split_magic r [] in (cur :: segs, rest)
              else split_magic r (cur ++ [b])
  end.

Fixpoint unescape (l : list N) : option (list N) :=
  match l with
  | [] => Some []
  | b :: r => if b =? pkt_escape then
                match r with
                | [] => None
                | x :: r' => option_map (cons (N.lxor x 32)) (unescape r')
                end
              else option_map (cons b) (unescape r)
  end.

Fixpoint split_msgs (fuel : nat) (p : list N) : option (list msg) :=
  match fuel with
  | O => match p with [] => Some [] | _ => None end
  | S f =>
    match p with
    | [] => Some []
    | l :: _ => let n := S (N.to_nat l) in
                if (length p <? n)%nat then None
                else option_map (cons (firstn n p)) (split_msgs f (skipn n p))
    end
  end.

Definition decode_segment (seg : list N) : option (list msg) :=
  match seg with
  | [] => Some []      (* adjacent delimiters *)
  | _ => match unescape seg with
         | None => None
         | Some u => if crc8 u =? 0 then split_msgs (length u) (removelast u) else None
         end
  end.

Fixpoint decode_segments (segs : list (list N)) : option (list msg) :=
  match segs with
  | [] => Some []
  | s :: r => match decode_segment s, decode_segments r with
              | Some a, Some b => Some (a ++ b)
              | _, _ => None
              end
  end.

Definition ref_decode (w : list N) : option (list msg) :=
  let '(segs, rest) := split_magic w [] in
  match rest with [] => decode_segments segs | _ => None end.
