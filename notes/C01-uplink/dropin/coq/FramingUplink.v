(* FramingUplink.v — from received bytes to the capacity announcements of a C01 history.
   The bytes go through the model of the receive path (Rx.v: bidib_receive_packet, bidib_split_packet);
   every delivered MSG_PKT_CAPACITY that passes the dispatcher's length guard (at least one data byte,
   found with bidib_first_data_byte_index) becomes `Announce debug depth c`, depth = number of non-zero
   address bytes of the sender, c = message[data_index]. Everything else received has no effect on the
   transmit buffer in a C01 history (nothing is queued in the node table).
   No proofs in this file. *)
From Coq Require Import List NArith Bool Arith.
From LB Require Import Tables Framing Rx.
Import ListNotations.
Local Open Scope N_scope.

Definition announce_of (debug : bool) (m : rmsg) : list hop :=
  if m_type m =? MSG_PKT_CAPACITY then
    match first_data_index (m_raw m) with
    | Some i => match nth_error (m_raw m) i with
                | Some c => [Announce debug (length (m_addr m)) c]
                | None => []
                end
    | None => []          (* no data byte: the dispatcher's length guard drops the message *)
    end
  else [].

Definition item_hops (debug : bool) (it : rx_item) : list hop :=
  match it with Delivered m => announce_of debug m | _ => [] end.

(* one `rx` of the script: receiver state, bytes -> receiver state, announcements in order *)
Definition rx_hops (debug : bool) (rs : rxs) (bytes : list N) : rxs * list hop :=
  let '(r1, items) := rx_run rs bytes in (r1, flat_map (item_hops debug) items).

(* the announcement as the bus carries it: [len; addr...; 0; seq; 0x8A; c] in one packet *)
Definition announce_msg (addr : list N) (seq c : N) : list N :=
  (nlen addr + 4) :: addr ++ [0; seq; MSG_PKT_CAPACITY; c].
