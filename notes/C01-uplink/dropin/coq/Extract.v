(* Extract.v — extraction of the executable models for the correspondence drivers.
   ExtrOcamlBasic only; no Extract Constant. Not part of _CoqProject: compiled by the check
   in a scratch directory (extraction writes model.ml into the current directory). *)
From Coq Require Import Extraction ExtrOcamlBasic List NArith.
From LB Require Import Tables Framing NodeFlow Rx Link FramingUplink.
Extraction "model.ml"
  tx_init tx_step h_step rx_hops wire_chunks ref_decode crc8 frame encode_msg wf_msg added
  flow_init flow_step flow_run link_rx rx_init rx_run canon parse_msg deliver_packet.
