(* Dispatch.v — executable model of bidib_handle_received_message's routing decision and of the three
   bounded uplink queues (bidib_message_queue_add / bidib_read_*message) in
   src/transmission/bidib_transmission_receive.c. The per-type class table is GENERATED (DispatchTab.v). *)
From Coq Require Import List NArith Bool Arith.
From LB Require Import Tables Framing Rx DispatchTab AccessTab.
Import ListNotations.
Local Open Scope N_scope.

Definition dispatch_class (ty : N) : dclass :=
  match find (fun kv => fst kv =? ty) dispatch_cases with
  | Some (_, k) => k
  | None => dispatch_default
  end.

Inductive dest := ToMsgQ | ToErrQ | ToInternQ | ToState | ToDropped.

(* bidib_min_data_length (GENERATED table AccessTab.min_tab): a message with fewer data bytes is dropped by the
   dispatcher's guard before its switch (normal mode; debug mode queues everything except stall notices first) *)
Definition min_data_len (ty : N) : nat :=
  match find (fun kv : N * nat => fst kv =? ty) min_tab with Some (_, n) => n | None => 0%nat end.

(* bidib_booster_normal_to_simple (state) == BIDIB_BSTR_SIMPLE_ERROR *)
Definition booster_is_error (st : N) : bool :=
  negb (existsb (N.eqb st)
    [BIDIB_BST_STATE_ON; BIDIB_BST_STATE_ON_LIMIT; BIDIB_BST_STATE_ON_HOT; BIDIB_BST_STATE_ON_HERE;
     BIDIB_BST_STATE_OFF; BIDIB_BST_STATE_OFF_GO_REQ; BIDIB_BST_STATE_OFF_HERE; BIDIB_BST_STATE_OFF_NO_DCC;
     BIDIB_BST_STATE_OFF_NOPOWER]).

(* the content test the code applies to the conditionally-erroneous types; data = bytes from the first data byte *)
Definition error_variant (ty : N) (data : list N) : bool :=
  if (ty =? MSG_ACCESSORY_STATE) || (ty =? MSG_ACCESSORY_NOTIFY) then nth 3 data 0 =? BIDIB_ACC_STATE_ERROR
  else if ty =? MSG_BOOST_STAT then booster_is_error (nth 0 data 0)
  else if ty =? MSG_CS_DRIVE_EVENT then nth 0 data 0 =? 1
  else false.

Definition dest_of (debug : bool) (ty : N) (data : list N) : dest :=
  if debug && negb (ty =? MSG_STALL) then ToMsgQ
  else if Nat.ltb (length data) (min_data_len ty) then ToDropped
  else match dispatch_class ty with
       | KMsgQ => ToMsgQ
       | KErrQ => ToErrQ
       | KInternQ => ToInternQ
       | KConsumed => ToState
       | KCondErrQ => if error_variant ty data then ToErrQ else ToState
       end.

(* ---- bounded queues ---- *)
Definition q_add (q : list (list N)) (m : list N) : list (list N) :=
  if nlen q =? queue_size then tl q ++ [m] else q ++ [m].
Definition q_pop (q : list (list N)) : option (list N) * list (list N) :=
  match q with [] => (None, []) | m :: r => (Some m, r) end.

Record queues := { q_msg : list (list N); q_err : list (list N); q_int : list (list N) }.
Definition queues_init : queues := {| q_msg := []; q_err := []; q_int := [] |}.

Definition msg_data (m : list N) : list N :=
  match first_data_index m with Some i => skipn i m | None => [] end.

Definition route (debug : bool) (qs : queues) (m : rmsg) : queues :=
  match dest_of debug (m_type m) (msg_data (m_raw m)) with
  | ToMsgQ => {| q_msg := q_add (q_msg qs) (m_raw m); q_err := q_err qs; q_int := q_int qs |}
  | ToErrQ => {| q_msg := q_msg qs; q_err := q_add (q_err qs) (m_raw m); q_int := q_int qs |}
  | ToInternQ => {| q_msg := q_msg qs; q_err := q_err qs; q_int := q_add (q_int qs) (m_raw m) |}
  | ToState | ToDropped => qs
  end.

Definition route_items (debug : bool) (qs : queues) (items : list rx_item) : queues :=
  fold_left (fun q it => match it with Delivered m => route debug q m | _ => q end) items qs.

(* ---- queue operations as a history (for the refinement theorem) ---- *)
Inductive qop := QAdd (m : list N) | QPop.
Definition q_step (q : list (list N)) (o : qop) : list (list N) * list (list N) (* popped *) :=
  match o with
  | QAdd m => (q_add q m, [])
  | QPop => match q_pop q with (Some m, r) => (r, [m]) | (None, r) => (r, []) end
  end.
Fixpoint q_run (q : list (list N)) (ops : list qop) : list (list N) * list (list N) :=
  match ops with
  | [] => (q, [])
  | o :: r => let '(q1, p1) := q_step q o in let '(q2, p2) := q_run q1 r in (q2, p1 ++ p2)
  end.
Definition q_added (ops : list qop) : list (list N) :=
  flat_map (fun o => match o with QAdd m => [m] | QPop => [] end) ops.
